import Mathlib.Tactic.Ring
import Mathlib.Tactic.Linarith
import Mathlib.Data.List.Nodup
import Mathlib.Data.List.Perm.Subperm
import Mathlib.Algebra.BigOperators.Group.List.Basic
import OrixProofs.Lemmas.NDArray
/-
Well-formedness (`data.length = prod shape`) is preserved by every operation, and on well-formed arrays no
gather ever reaches outside its source: the answer `NDErr.internal` is impossible.
-/
namespace Orix.NDArray
variable {α β : Type}

theorem optAll_some_of_all {l : List (Option α)} (h : ∀ x ∈ l, x.isSome = true) : ∃ d, optAll l = some d := by
  induction l with
  | nil => exact ⟨[], rfl⟩
  | cons x r ih =>
    obtain ⟨d, hd⟩ := ih (fun y hy => h y (List.mem_cons_of_mem _ hy))
    have hx := h x (List.mem_cons_self ..)
    cases x with
    | none => cases hx
    | some v => exact ⟨v :: d, by simp [optAll, hd]⟩

theorem get?_isSome {A : NDArray α} (hw : A.WF) {i : List Nat} (hi : validIdx A.shape i = true) :
    (A.get? i).isSome = true := by
  unfold get?
  rw [if_pos hi]
  have := ravel_lt _ _ hi
  rw [← hw] at this
  simp [List.getElem?_eq_getElem this]

/-- a gather from a well-formed array with valid source indices succeeds and is well-formed if the number of
sources matches the new shape -/
theorem gatherList_ok {A : NDArray α} (hw : A.WF) (ns : List Nat) (src : List (List Nat))
    (hv : ∀ i ∈ src, validIdx A.shape i = true) (hl : src.length = prod ns) :
    ∃ B, gatherList A ns src = some B ∧ B.WF := by
  have : ∀ x ∈ src.map A.get?, x.isSome = true := by
    intro x hx
    obtain ⟨i, hi, rfl⟩ := List.mem_map.1 hx
    exact get?_isSome hw (hv i hi)
  obtain ⟨d, hd⟩ := optAll_some_of_all this
  refine ⟨⟨ns, d⟩, by simp [gatherList, hd], ?_⟩
  have h2 := congrArg List.length (optAll_eq_some.1 hd)
  simp only [List.length_map] at h2
  show d.length = prod ns
  omega

/-! ### validity of multi-indices, pointwise -/

theorem validIdx_iff (s i : List Nat) :
    validIdx s i = true ↔ i.length = s.length ∧ ∀ a (ha : a < s.length) (hi : a < i.length), i[a] < s[a] := by
  induction s generalizing i with
  | nil => cases i <;> simp [validIdx]
  | cons n s ih =>
    cases i with
    | nil => simp [validIdx]
    | cons x xs =>
      simp only [validIdx, Bool.and_eq_true, decide_eq_true_eq, ih, List.length_cons, Nat.add_right_cancel_iff]
      constructor
      · rintro ⟨hx, hl, h⟩
        refine ⟨hl, ?_⟩
        intro a ha hi
        cases a with
        | zero => simpa using hx
        | succ a => simpa using h a (by omega) (by omega)
      · rintro ⟨hl, h⟩
        refine ⟨by simpa using h 0 (by omega) (by omega), hl, ?_⟩
        intro a ha hi
        have := h (a + 1) (by omega) (by simp; omega)
        simpa only [List.getElem_cons_succ] using this

theorem mem_cart {ls : List (List Nat)} {i : List Nat} :
    i ∈ cart ls ↔ i.length = ls.length ∧ ∀ a (ha : a < ls.length) (hi : a < i.length), i[a] ∈ ls[a] := by
  induction ls generalizing i with
  | nil => cases i <;> simp [cart]
  | cons l ls ih =>
    simp only [cart, List.mem_flatMap, List.mem_map]
    constructor
    · rintro ⟨x, hx, t, ht, rfl⟩
      obtain ⟨hl, h⟩ := ih.1 ht
      refine ⟨by simp [hl], ?_⟩
      intro a ha hi
      cases a with
      | zero => simpa using hx
      | succ a => simpa using h a (by simp at ha; omega) (by simp at hi; omega)
    · rintro ⟨hl, h⟩
      cases i with
      | nil => simp at hl
      | cons x xs =>
        have h0 := h 0 (by simp) (by simp)
        simp only [List.getElem_cons_zero] at h0
        refine ⟨x, h0, xs, ?_, rfl⟩
        refine ih.2 ⟨by simpa using hl, ?_⟩
        intro a ha hi
        have := h (a + 1) (by simp; omega) (by simp; omega)
        simpa only [List.getElem_cons_succ] using this

theorem valid_of_mem_cart {s : List Nat} {ls : List (List Nat)} (hl : ls.length = s.length)
    (hb : ∀ a (ha : a < ls.length) (hs : a < s.length), ∀ x ∈ ls[a], x < s[a])
    {i : List Nat} (hi : i ∈ cart ls) : validIdx s i = true := by
  obtain ⟨h1, h2⟩ := mem_cart.1 hi
  refine (validIdx_iff s i).2 ⟨by omega, ?_⟩
  intro a ha hia
  exact hb a (by omega) ha _ (h2 a (by omega) hia)

theorem mem_allIdx {s i : List Nat} : i ∈ allIdx s ↔ validIdx s i = true := by
  unfold allIdx
  rw [mem_cart, validIdx_iff]
  simp only [List.length_map, List.getElem_map, List.mem_range]

theorem prod_eq (s : List Nat) : prod s = s.prod := by
  induction s with
  | nil => rfl
  | cons a s ih => simp [prod, ih]

theorem prod_append (s t : List Nat) : prod (s ++ t) = prod s * prod t := by
  simp [prod_eq, List.prod_append]

theorem filterMap_getElem?_all_some {γ δ : Type} (f : γ → Option δ) (l : List γ)
    (h : ∀ a ∈ l, (f a).isSome) (u : Nat) : (l.filterMap f)[u]? = (l[u]?).bind f := by
  induction l generalizing u with
  | nil => simp
  | cons a l ih =>
    have ha := h a (List.mem_cons_self ..)
    cases hfa : f a with
    | none => rw [hfa] at ha; cases ha
    | some b =>
      rw [List.filterMap_cons_some hfa]
      cases u with
      | zero => simp [hfa]
      | succ u => simpa using ih (fun x hx => h x (List.mem_cons_of_mem _ hx)) u

theorem filterMap_length_all_some {γ δ : Type} (f : γ → Option δ) (l : List γ)
    (h : ∀ a ∈ l, (f a).isSome) : (l.filterMap f).length = l.length := by
  induction l with
  | nil => rfl
  | cons a l ih =>
    have ha := h a (List.mem_cons_self ..)
    cases hfa : f a with
    | none => rw [hfa] at ha; cases ha
    | some b =>
      rw [List.filterMap_cons_some hfa]
      simp [ih (fun x hx => h x (List.mem_cons_of_mem _ hx))]

/-! ### reshape -/

theorem prod_map_no_hole (ds : List Int) (q : Nat) (h : (ds.filter (fun d => d == -1)).length = 0) :
    prod (ds.map (fun d => if d == -1 then q else d.toNat)) = prod ((ds.filter (fun d => d != -1)).map Int.toNat) := by
  induction ds with
  | nil => rfl
  | cons d ds ih =>
    by_cases hd : (d == -1) = true
    · simp [hd] at h
    · have hd' : (d != -1) = true := by simpa [bne] using hd
      simp only [List.filter_cons, hd] at h
      simp only [List.map_cons, hd, List.filter_cons, hd', if_true, prod, ih h]
      simp

theorem prod_map_one_hole (ds : List Int) (q : Nat) (h : (ds.filter (fun d => d == -1)).length = 1) :
    prod (ds.map (fun d => if d == -1 then q else d.toNat)) =
      q * prod ((ds.filter (fun d => d != -1)).map Int.toNat) := by
  induction ds with
  | nil => simp at h
  | cons d ds ih =>
    by_cases hd : (d == -1) = true
    · have hd' : (d != -1) = false := by simp [bne, hd]
      simp only [List.filter_cons, hd, if_true, List.length_cons, Nat.add_eq_right] at h
      simp only [List.map_cons, hd, if_true, List.filter_cons, hd', prod, prod_map_no_hole ds q h]
      simp
    · have hd' : (d != -1) = true := by simpa [bne] using hd
      simp only [List.filter_cons, hd] at h
      simp only [List.map_cons, hd, List.filter_cons, hd', if_true, prod, ih h]
      simp only [Bool.false_eq_true, if_false]
      ring

theorem resolveShape_prod {n : Nat} {dims : List Int} {ns : List Nat} (h : resolveShape n dims = .ok ns) :
    prod ns = n := by
  unfold resolveShape at h
  by_cases h1 : (dims.any fun d => decide (d < -1)) = true
  · rw [if_pos h1] at h; cases h
  · rw [if_neg h1] at h
    generalize hc : (dims.filter (fun d => d == -1)).length = c at h
    match c, hc with
    | 0, hc =>
      simp only at h
      by_cases h2 : prod (dims.map Int.toNat) = n
      · rw [if_pos h2] at h; cases h; exact h2
      · rw [if_neg h2] at h; cases h
    | 1, hc =>
      simp only at h
      by_cases h2 : prod ((dims.filter (fun d => d != -1)).map Int.toNat) = 0
      · rw [if_pos h2] at h; cases h
      · rw [if_neg h2] at h
        by_cases h3 : n % prod ((dims.filter (fun d => d != -1)).map Int.toNat) = 0
        · rw [if_pos h3] at h
          cases h
          rw [prod_map_one_hole dims _ hc]
          exact Nat.div_mul_cancel (Nat.dvd_of_mod_eq_zero h3)
        · rw [if_neg h3] at h; cases h
    | (k + 2), hc => simp only at h; cases h

theorem reshape_wf {dims : List Int} {A B : NDArray α} (hw : A.WF) (h : reshape dims A = .ok B) : B.WF := by
  unfold reshape at h
  cases hr : resolveShape (prod A.shape) dims with
  | error e => rw [hr] at h; cases h
  | ok ns =>
    rw [hr] at h
    simp only [bind, Except.bind] at h
    by_cases hn : ns = []
    · rw [if_pos hn] at h; cases h
    · rw [if_neg hn] at h
      cases h
      show A.data.length = prod ns
      rw [resolveShape_prod hr]; exact hw

theorem resolveShape_error {n : Nat} {dims : List Int} {e : NDErr} (h : resolveShape n dims = .error e) :
    e = .value := by
  unfold resolveShape at h
  by_cases h1 : (dims.any fun d => decide (d < -1)) = true
  · rw [if_pos h1] at h; cases h; rfl
  · rw [if_neg h1] at h
    generalize hc : (dims.filter (fun d => d == -1)).length = c at h
    match c, hc with
    | 0, hc =>
      simp only at h
      by_cases h2 : prod (dims.map Int.toNat) = n
      · rw [if_pos h2] at h; cases h
      · rw [if_neg h2] at h; cases h; rfl
    | 1, hc =>
      simp only at h
      by_cases h2 : prod ((dims.filter (fun d => d != -1)).map Int.toNat) = 0
      · rw [if_pos h2] at h; cases h; rfl
      · rw [if_neg h2] at h
        by_cases h3 : n % prod ((dims.filter (fun d => d != -1)).map Int.toNat) = 0
        · rw [if_pos h3] at h; cases h
        · rw [if_neg h3] at h; cases h; rfl
    | (k + 2), hc => simp only at h; cases h; rfl

theorem reshape_error {dims : List Int} {A : NDArray α} {e : NDErr} (h : reshape dims A = .error e) :
    e = .value := by
  unfold reshape at h
  cases hr : resolveShape (prod A.shape) dims with
  | error e' =>
    rw [hr] at h
    simp only [bind, Except.bind] at h
    cases h
    exact resolveShape_error hr
  | ok ns =>
    rw [hr] at h
    simp only [bind, Except.bind] at h
    by_cases hn : ns = []
    · rw [if_pos hn] at h; cases h; rfl
    · rw [if_neg hn] at h; cases h

/-! ### squeeze -/

theorem prod_filter_ne_one (s : List Nat) : prod (s.filter (· ≠ 1)) = prod s := by
  induction s with
  | nil => rfl
  | cons a s ih =>
    by_cases ha : a = 1
    · rw [List.filter_cons_of_neg (by simpa using ha), ih, ha]
      simp [prod]
    · rw [List.filter_cons_of_pos (by simpa using ha)]
      simp only [prod, ih]

theorem squeeze_wf {A : NDArray α} (hw : A.WF) : (squeeze A).WF := by
  show A.data.length = prod (atleast1 (A.shape.filter (· ≠ 1)))
  unfold atleast1
  by_cases h : A.shape.filter (· ≠ 1) = []
  · rw [if_pos h, hw, ← prod_filter_ne_one, h]; rfl
  · rw [if_neg h, prod_filter_ne_one]; exact hw

/-! ### transpose, flatten -/

structure IsPerm (p : List Nat) (nd : Nat) : Prop where
  nodup : p.Nodup
  len : p.length = nd
  lt : ∀ x ∈ p, x < nd

theorem IsPerm.perm {p : List Nat} {nd : Nat} (h : IsPerm p nd) : p.Perm (List.range nd) :=
  (List.subperm_of_subset h.nodup (fun x hx => List.mem_range.2 (h.lt x hx))).perm_of_length_le
    (by simp [h.len])

theorem IsPerm.mem {p : List Nat} {nd : Nat} (h : IsPerm p nd) {a : Nat} (ha : a < nd) : a ∈ p :=
  h.perm.mem_iff.2 (List.mem_range.2 ha)

theorem permShape_all_some {p : List Nat} {s : List Nat} (hp : IsPerm p s.length) :
    ∀ a ∈ p, (s[a]?).isSome := by
  intro a ha
  simp [List.getElem?_eq_getElem (hp.lt a ha)]

theorem permShape_prod {p : List Nat} {s : List Nat} (hp : IsPerm p s.length) :
    prod (p.filterMap fun a => s[a]?) = prod s := by
  have h1 : (p.filterMap fun a => s[a]?).Perm ((List.range s.length).filterMap fun a => s[a]?) :=
    List.Perm.filterMap _ hp.perm
  rw [filterMap_getElem?_range_length] at h1
  rw [prod_eq, prod_eq]
  exact h1.prod_eq

theorem unperm_valid {p : List Nat} {s : List Nat} (hp : IsPerm p s.length) {j : List Nat}
    (hj : validIdx (p.filterMap fun a => s[a]?) j = true) : validIdx s (unperm p j) = true := by
  obtain ⟨hjl, hjb⟩ := (validIdx_iff _ j).1 hj
  have hnl : (p.filterMap fun a => s[a]?).length = s.length := by
    rw [filterMap_length_all_some _ _ (permShape_all_some hp), hp.len]
  have hall : ∀ a ∈ List.range p.length, (j[p.idxOf a]?).isSome := by
    intro a ha
    have ha' : a < s.length := by rw [← hp.len]; exact List.mem_range.1 ha
    have hk : p.idxOf a < p.length := List.idxOf_lt_length_iff.2 (hp.mem ha')
    have : p.idxOf a < j.length := by rw [hjl, hnl, ← hp.len]; exact hk
    simp [List.getElem?_eq_getElem this]
  refine (validIdx_iff s _).2 ⟨?_, ?_⟩
  · unfold unperm
    rw [filterMap_length_all_some _ _ hall, List.length_range, hp.len]
  · intro a ha hia
    have hk : p.idxOf a < p.length := List.idxOf_lt_length_iff.2 (hp.mem ha)
    have hkj : p.idxOf a < j.length := by rw [hjl, hnl, ← hp.len]; exact hk
    have hkn : p.idxOf a < (p.filterMap fun a => s[a]?).length := by rw [hnl, ← hp.len]; exact hk
    have hpa : p[p.idxOf a] = a := List.getElem_idxOf hk
    have hns : (p.filterMap fun a => s[a]?)[p.idxOf a]? = some s[a] := by
      rw [filterMap_getElem?_all_some _ _ (permShape_all_some hp), List.getElem?_eq_getElem hk]
      simp [hpa, List.getElem?_eq_getElem ha]
    have hui : (unperm p j)[a]? = some j[p.idxOf a] := by
      unfold unperm
      rw [filterMap_getElem?_all_some _ _ hall, List.getElem?_range (by rw [hp.len]; exact ha)]
      simp [List.getElem?_eq_getElem hkj]
    have hb := hjb (p.idxOf a) hkn hkj
    have e1 : (unperm p j)[a] = j[p.idxOf a] := by
      have := List.getElem?_eq_getElem hia
      rw [hui] at this
      exact (Option.some.inj this).symm
    have e2 : (p.filterMap fun a => s[a]?)[p.idxOf a] = s[a] := by
      have := List.getElem?_eq_getElem hkn
      rw [hns] at this
      exact (Option.some.inj this).symm
    rw [e1, ← e2]
    exact hb

theorem transposePerm_ok {p : List Nat} {A : NDArray α} (hw : A.WF) (hp : IsPerm p A.shape.length) :
    ∃ B, transposePerm p A = .ok B ∧ B.WF ∧ B.shape = (p.filterMap fun a => A.shape[a]?) := by
  unfold transposePerm
  obtain ⟨B, hB, hBw⟩ := gatherList_ok hw (p.filterMap fun a => A.shape[a]?)
    ((allIdx (p.filterMap fun a => A.shape[a]?)).map (unperm p))
    (by
      intro i hi
      obtain ⟨j, hj, rfl⟩ := List.mem_map.1 hi
      exact unperm_valid hp (mem_allIdx.1 hj))
    (by rw [List.length_map, length_allIdx])
  exact ⟨B, by show ofOpt _ = _; rw [hB]; rfl, hBw, (gatherList_data hB).1⟩

theorem isPerm_reverse_range (n : Nat) : IsPerm (List.range n).reverse n :=
  ⟨List.nodup_reverse.2 List.nodup_range, by simp, fun x hx => by simpa using hx⟩

theorem flatten_ok {A : NDArray α} (hw : A.WF) : ∃ B, flatten A = .ok B ∧ B.WF := by
  obtain ⟨T, hT, hTw, hTs⟩ := transposePerm_ok hw (isPerm_reverse_range A.shape.length)
  refine ⟨⟨[prod A.shape], T.data⟩, by simp [flatten, hT, bind, Except.bind], ?_⟩
  show T.data.length = prod [prod A.shape]
  rw [hTw, hTs, permShape_prod (isPerm_reverse_range _)]
  simp [prod]

theorem normAxes_isPerm {nd e : Nat} {ax : List Int} {p : List Nat} (hl : ax.length = nd)
    (h : normAxes nd e ax = .ok p) : IsPerm p nd := by
  unfold normAxes at h
  simp only at h
  split at h
  · rename_i hall
    split at h
    · rename_i hnd
      cases h
      refine ⟨hnd, by simp [hl], ?_⟩
      intro x hx
      obtain ⟨a, ha, rfl⟩ := List.mem_map.1 hx
      have := (List.all_eq_true.1 hall) a ha
      simp only [Bool.and_eq_true, decide_eq_true_eq] at this
      omega
    · cases h
  · cases h

theorem normAxes_error {nd e : Nat} {ax : List Int} {err : NDErr} (h : normAxes nd e ax = .error err) :
    err = .value := by
  unfold normAxes at h
  simp only at h
  split at h
  · split at h
    · cases h
    · cases h; rfl
  · cases h; rfl

/-- transpose of a well-formed array either answers a `value` error or a well-formed array -/
theorem transpose_total {A : NDArray α} (hw : A.WF) (e : Nat) (axes : Option (List Int)) :
    (∃ B, transpose e axes A = .ok B ∧ B.WF) ∨ transpose e axes A = .error .value := by
  unfold transpose
  by_cases h1 : A.shape.length = 1
  · simp only [h1, if_true]; exact Or.inl ⟨A, rfl, hw⟩
  · simp only [h1, if_false]
    cases axes with
    | none =>
      simp only
      by_cases h2 : A.shape.length = 2
      · simp only [h2, if_true]
        have hp : IsPerm [1, 0] A.shape.length := by
          rw [h2]; exact ⟨by decide, rfl, by decide⟩
        obtain ⟨B, hB, hBw, _⟩ := transposePerm_ok hw hp
        exact Or.inl ⟨B, hB, hBw⟩
      · right; simp only [h2, if_false]
    | some ax =>
      simp only
      by_cases h3 : ax.length ≠ A.shape.length
      · right; rw [if_pos h3]
      · rw [if_neg h3]
        cases hn : normAxes A.shape.length e ax with
        | error err =>
          rw [normAxes_error hn]; right; rfl
        | ok p =>
          obtain ⟨B, hB, hBw, _⟩ := transposePerm_ok hw (normAxes_isPerm (not_not.1 h3) hn)
          exact Or.inl ⟨B, by simpa [bind, Except.bind] using hB, hBw⟩

/-! ### getitem -/

theorem sliceClamp_bounds (n : Nat) (st x : Int) :
    sliceLower st ≤ sliceClamp n st x ∧ sliceClamp n st x ≤ sliceUpper n st := by
  unfold sliceClamp sliceLower sliceUpper
  split <;> split <;> omega

theorem slice_elem_bounds (n : Nat) (st : Int) (hst : st ≠ 0) (start stop : Option Int) (k : Nat)
    (hk : k < sliceCount (sliceStart n st start) (sliceStop n st stop) st) :
    0 ≤ sliceStart n st start + Int.ofNat k * st ∧ sliceStart n st start + Int.ofNat k * st < n := by
  have ha : sliceLower st ≤ sliceStart n st start ∧
      (sliceStart n st start ≤ sliceUpper n st ∨ sliceStart n st start = sliceLower st) := by
    cases start with
    | none => simp only [sliceStart, sliceLower, sliceUpper]; split <;> omega
    | some x => have := sliceClamp_bounds n st x; simp only [sliceStart]; omega
  have hb : sliceLower st ≤ sliceStop n st stop ∧
      (sliceStop n st stop ≤ sliceUpper n st ∨ sliceStop n st stop = sliceLower st) := by
    cases stop with
    | none => simp only [sliceStop, sliceLower, sliceUpper]; split <;> omega
    | some x => have := sliceClamp_bounds n st x; simp only [sliceStop]; omega
  generalize sliceStart n st start = a at *
  generalize sliceStop n st stop = b at *
  unfold sliceCount at hk
  unfold sliceLower sliceUpper at ha hb
  rcases lt_or_gt_of_ne hst with hneg | hpos
  · -- negative step
    have h1 : ¬ st > 0 := by omega
    rw [if_neg h1] at hk
    by_cases hba : b < a
    · rw [if_pos hba] at hk
      have hq : 0 ≤ (a - b - 1) / (-st) := Int.ediv_nonneg (by omega) (by omega)
      have hk' : (Int.ofNat k) ≤ (a - b - 1) / (-st) := by
        have : (k : Int) < ((a - b - 1) / (-st) + 1).toNat := by exact_mod_cast hk
        rw [Int.toNat_of_nonneg (by omega)] at this
        simp only [Int.ofNat_eq_natCast]; omega
      have hm : (a - b - 1) / (-st) * (-st) ≤ a - b - 1 := Int.ediv_mul_le _ (by omega)
      have hk2 : Int.ofNat k * (-st) ≤ (a - b - 1) / (-st) * (-st) :=
        Int.mul_le_mul_of_nonneg_right hk' (by omega)
      have hk0 : 0 ≤ Int.ofNat k * (-st) := Int.mul_nonneg (by simp) (by omega)
      have e : Int.ofNat k * st = -(Int.ofNat k * (-st)) := by ring
      rw [if_pos hneg] at ha hb
      rw [e]
      constructor <;> omega
    · rw [if_neg hba] at hk; omega
  · have h1 : st > 0 := hpos
    rw [if_pos h1] at hk
    have hn0 : ¬ st < 0 := by omega
    rw [if_neg hn0] at ha hb
    by_cases hab : a < b
    · rw [if_pos hab] at hk
      have hq : 0 ≤ (b - a - 1) / st := Int.ediv_nonneg (by omega) (by omega)
      have hk' : (Int.ofNat k) ≤ (b - a - 1) / st := by
        have : (k : Int) < ((b - a - 1) / st + 1).toNat := by exact_mod_cast hk
        rw [Int.toNat_of_nonneg (by omega)] at this
        simp only [Int.ofNat_eq_natCast]; omega
      have hm : (b - a - 1) / st * st ≤ b - a - 1 := Int.ediv_mul_le _ (by omega)
      have hk2 : Int.ofNat k * st ≤ (b - a - 1) / st * st := Int.mul_le_mul_of_nonneg_right hk' (by omega)
      have hk0 : 0 ≤ Int.ofNat k * st := Int.mul_nonneg (by simp) (by omega)
      constructor <;> omega
    · rw [if_neg hab] at hk; omega

theorem sliceIndices_lt {n : Nat} {start stop step : Option Int} {l : List Nat}
    (h : sliceIndices n start stop step = .ok l) : ∀ x ∈ l, x < n := by
  unfold sliceIndices at h
  simp only at h
  by_cases h0 : step.getD 1 = 0
  · rw [if_pos h0] at h; cases h
  · rw [if_neg h0] at h
    cases h
    intro x hx
    obtain ⟨k, hk, rfl⟩ := List.mem_map.1 hx
    have := slice_elem_bounds n _ h0 start stop k (List.mem_range.1 hk)
    omega

theorem sliceIndices_error {n : Nat} {start stop step : Option Int} {e : NDErr}
    (h : sliceIndices n start stop step = .error e) : e = .value := by
  unfold sliceIndices at h
  simp only at h
  by_cases h0 : step.getD 1 = 0
  · rw [if_pos h0] at h; cases h; rfl
  · rw [if_neg h0] at h; cases h

theorem axisSel_ok {n : Nat} {it : KeyItem} {l : List Nat} {keep : Bool} (h : axisSel n it = .ok (l, keep)) :
    (∀ x ∈ l, x < n) ∧ (keep = false → l.length = 1) := by
  cases it with
  | int i =>
    simp only [axisSel] at h
    by_cases hi : -(n : Int) ≤ i ∧ i < n
    · rw [if_pos hi] at h
      simp only [Except.ok.injEq, Prod.mk.injEq] at h
      obtain ⟨rfl, rfl⟩ := h
      refine ⟨?_, fun _ => rfl⟩
      intro x hx
      simp only [List.mem_singleton] at hx
      subst hx
      split <;> omega
    · rw [if_neg hi] at h; cases h
  | slice a b c =>
    simp only [axisSel, bind, Except.bind] at h
    cases hs : sliceIndices n a b c with
    | error e => rw [hs] at h; cases h
    | ok l' =>
      rw [hs] at h
      simp only [Except.ok.injEq, Prod.mk.injEq] at h
      obtain ⟨rfl, rfl⟩ := h
      exact ⟨sliceIndices_lt hs, fun h => by cases h⟩

theorem axisSel_error {n : Nat} {it : KeyItem} {e : NDErr} (h : axisSel n it = .error e) :
    e = .index ∨ e = .value := by
  cases it with
  | int i =>
    simp only [axisSel] at h
    by_cases hi : -(n : Int) ≤ i ∧ i < n
    · rw [if_pos hi] at h; cases h
    · rw [if_neg hi] at h; cases h; exact Or.inl rfl
  | slice a b c =>
    simp only [axisSel, bind, Except.bind] at h
    cases hs : sliceIndices n a b c with
    | error e' =>
      rw [hs] at h
      cases h
      exact Or.inr (sliceIndices_error hs)
    | ok l' => rw [hs] at h; cases h

theorem selections_ok {s : List Nat} {items : List KeyItem} {sels : List (List Nat × Bool)}
    (h : selections s items = .ok sels) :
    sels.length = s.length ∧
    (∀ a (ha : a < sels.length) (hs : a < s.length), ∀ x ∈ (sels[a]).1, x < s[a]) ∧
    (∀ p ∈ sels, p.2 = false → p.1.length = 1) := by
  induction s generalizing items sels with
  | nil =>
    cases items with
    | nil => simp only [selections, List.map_nil, Except.ok.injEq] at h; subst h; simp
    | cons it its => simp [selections] at h
  | cons n s ih =>
    cases items with
    | nil =>
      simp only [selections, Except.ok.injEq] at h
      subst h
      refine ⟨by simp, ?_, ?_⟩
      · intro a ha hs x hx
        simp only [List.getElem_map, List.mem_range] at hx
        exact hx
      · intro p hp hk
        obtain ⟨m, _, rfl⟩ := List.mem_map.1 hp
        cases hk
    | cons it its =>
      simp only [selections, bind, Except.bind] at h
      cases ha : axisSel n it with
      | error e => rw [ha] at h; cases h
      | ok sel =>
        rw [ha] at h
        simp only at h
        cases hr : selections s its with
        | error e => rw [hr] at h; cases h
        | ok r =>
          rw [hr] at h
          simp only [Except.ok.injEq] at h
          subst h
          obtain ⟨h1, h2, h3⟩ := ih hr
          obtain ⟨l, keep⟩ := sel
          have hsel := axisSel_ok ha
          refine ⟨by simp [h1], ?_, ?_⟩
          · intro a haa hs x hx
            cases a with
            | zero => simp only [List.getElem_cons_zero] at hx ⊢; exact hsel.1 x hx
            | succ a =>
              simp only [List.getElem_cons_succ] at hx ⊢
              exact h2 a (by simp at haa; omega) (by simp at hs; omega) x hx
          · intro p hp hk
            rcases List.mem_cons.1 hp with rfl | hp
            · exact hsel.2 hk
            · exact h3 p hp hk

theorem selections_error {s : List Nat} {items : List KeyItem} {e : NDErr}
    (h : selections s items = .error e) : e = .index ∨ e = .value := by
  induction s generalizing items with
  | nil =>
    cases items with
    | nil => simp [selections] at h
    | cons it its => simp only [selections] at h; cases h; exact Or.inl rfl
  | cons n s ih =>
    cases items with
    | nil => simp [selections] at h
    | cons it its =>
      simp only [selections, bind, Except.bind] at h
      cases ha : axisSel n it with
      | error e' => rw [ha] at h; cases h; exact axisSel_error ha
      | ok sel =>
        rw [ha] at h
        simp only at h
        cases hr : selections s its with
        | error e' => rw [hr] at h; cases h; exact ih hr
        | ok r => rw [hr] at h; cases h

theorem prod_kept_lens (sels : List (List Nat × Bool)) (h : ∀ p ∈ sels, p.2 = false → p.1.length = 1) :
    prod (atleast1 ((sels.filter (·.2)).map (·.1.length))) = prod ((sels.map (·.1)).map List.length) := by
  have h2 : prod ((sels.filter (·.2)).map (·.1.length)) = prod ((sels.map (·.1)).map List.length) := by
    induction sels with
    | nil => rfl
    | cons p r ih =>
      have ihr := ih (fun q hq => h q (List.mem_cons_of_mem _ hq))
      by_cases hp : p.2 = true
      · rw [List.filter_cons_of_pos hp]
        simp only [List.map_cons, prod, ihr]
      · rw [List.filter_cons_of_neg hp]
        have := h p (List.mem_cons_self ..) (by simpa using hp)
        simp only [List.map_cons, prod, ihr, this, Nat.one_mul]
  unfold atleast1
  split
  · rename_i he
    rw [← h2, he]; rfl
  · exact h2

theorem truePos_lt (bits : List Bool) : ∀ x ∈ truePos bits, x < bits.length := by
  intro x hx
  unfold truePos at hx
  obtain ⟨p, hp, hx⟩ := List.mem_filterMap.1 hx
  have := List.mem_zipIdx_iff_getElem?.1 hp
  have hl := (List.getElem?_eq_some_iff.1 this).1
  split at hx
  · cases hx; exact hl
  · cases hx

/-- getitem of a well-formed array: a well-formed array, or an `index` / `value` error — never `internal` -/
theorem getitem_total {A : NDArray α} (hw : A.WF) (k : Key) :
    (∃ B, getitem k A = .ok B ∧ B.WF) ∨ getitem k A = .error .index ∨ getitem k A = .error .value := by
  cases k with
  | tuple items =>
    simp only [getitem]
    cases hs : selections A.shape items with
    | error e =>
      right
      rcases selections_error hs with rfl | rfl
      · left; rfl
      · right; rfl
    | ok sels =>
      left
      obtain ⟨h1, h2, h3⟩ := selections_ok hs
      obtain ⟨B, hB, hBw⟩ := gatherList_ok hw (atleast1 ((sels.filter (·.2)).map (·.1.length)))
        (cart (sels.map (·.1)))
        (by
          intro i hi
          refine valid_of_mem_cart (by simpa using h1) ?_ hi
          intro a ha hsa x hx
          simp only [List.length_map] at ha
          simp only [List.getElem_map] at hx
          exact h2 a ha hsa x hx)
        (by rw [length_cart, prod_kept_lens sels h3])
      exact ⟨B, by simp [bind, Except.bind, hB, ofOpt], hBw⟩
  | mask msh bits =>
    simp only [getitem]
    by_cases hc : msh = [] ∨ msh ≠ A.shape.take msh.length ∨ bits.length ≠ prod msh
    · right; left; rw [if_pos hc]
    · left
      rw [if_neg hc]
      simp only [not_or, not_not] at hc
      obtain ⟨_, hm, hb⟩ := hc
      have hVw : (⟨prod msh :: A.shape.drop msh.length, A.data⟩ : NDArray α).WF := by
        show A.data.length = prod (prod msh :: A.shape.drop msh.length)
        rw [hw]
        conv_lhs => rw [← List.take_append_drop msh.length A.shape, prod_append, ← hm]
        rfl
      obtain ⟨B, hB, hBw⟩ := gatherList_ok hVw ((truePos bits).length :: A.shape.drop msh.length)
        (cart (truePos bits :: (A.shape.drop msh.length).map List.range))
        (by
          intro i hi
          refine valid_of_mem_cart (by simp) ?_ hi
          intro a ha hsa x hx
          cases a with
          | zero =>
            simp only [List.getElem_cons_zero] at hx ⊢
            rw [← hb]; exact truePos_lt bits x hx
          | succ a =>
            simp only [List.getElem_cons_succ, List.getElem_map, List.mem_range] at hx ⊢
            exact hx)
        (by rw [length_cart]; simp only [List.map_cons, prod, map_length_range])
      exact ⟨B, by rw [hB]; rfl, hBw⟩

theorem length_flatMap_uniform {γ δ : Type} (l : List γ) (f : γ → List δ) (m : Nat)
    (h : ∀ x ∈ l, (f x).length = m) : (l.flatMap f).length = l.length * m := by
  induction l with
  | nil => simp
  | cons x xs ih =>
    rw [List.flatMap_cons, List.length_append, h x (List.mem_cons_self ..),
      ih (fun y hy => h y (List.mem_cons_of_mem _ hy)), List.length_cons]
    ring

/-- stack of well-formed arrays: a well-formed array or a `value` error -/
theorem stack_total {As : List (NDArray α)} (hw : ∀ B ∈ As, B.WF) :
    (∃ B, stack As = .ok B ∧ B.WF) ∨ stack As = .error .value := by
  cases As with
  | nil => right; rfl
  | cons A rest =>
    simp only [stack]
    by_cases hall : (rest.all fun B => B.shape == A.shape) = true
    · left
      rw [if_pos hall]
      have hshape : ∀ D ∈ A :: rest, D.shape = A.shape := by
        intro D hD
        rcases List.mem_cons.1 hD with rfl | hD
        · rfl
        · simpa using (List.all_eq_true.1 hall) D hD
      have hsome : ∀ x ∈ (List.range (prod A.shape)).flatMap (fun j => (A :: rest).map (fun B => B.data[j]?)),
          x.isSome = true := by
        intro x hx
        obtain ⟨j, hj, hx⟩ := List.mem_flatMap.1 hx
        obtain ⟨D, hD, rfl⟩ := List.mem_map.1 hx
        have : j < D.data.length := by rw [hw D hD, hshape D hD]; exact List.mem_range.1 hj
        simp [List.getElem?_eq_getElem this]
      obtain ⟨d, hd⟩ := optAll_some_of_all hsome
      refine ⟨⟨A.shape ++ [(A :: rest).length], d⟩, by rw [hd]; rfl, ?_⟩
      show d.length = prod (A.shape ++ [(A :: rest).length])
      have h2 := congrArg List.length (optAll_eq_some.1 hd)
      rw [List.length_map, length_flatMap_uniform _ _ (A :: rest).length (fun x _ => by simp),
        List.length_range] at h2
      rw [prod_append, ← h2]
      simp [prod]
    · right; rw [if_neg hall]

/-! ### the two readings of negative axes never both succeed with different results -/

theorem sum_norm_axes (ax : List Int) (m : Int) :
    (ax.map (fun a => if a < 0 then a + (m + 1) else a)).sum =
      (ax.map (fun a => if a < 0 then a + m else a)).sum + (ax.filter (fun a => decide (a < 0))).length := by
  induction ax with
  | nil => simp
  | cons a r ih =>
    by_cases ha : a < 0
    · simp only [List.map_cons, List.sum_cons, ha, if_true, ih, List.filter_cons, decide_true,
        List.length_cons]
      push_cast; ring
    · simp only [List.map_cons, List.sum_cons, ha, if_false, ih, List.filter_cons, decide_false]
      simp only [Bool.false_eq_true, if_false]
      ring

theorem sum_toNat (l : List Int) (h : ∀ a ∈ l, 0 ≤ a) : ((l.map Int.toNat).sum : Int) = l.sum := by
  induction l with
  | nil => simp
  | cons a r ih =>
    have ha := h a (List.mem_cons_self ..)
    simp only [List.map_cons, List.sum_cons, Nat.cast_add, ih (fun x hx => h x (List.mem_cons_of_mem _ hx))]
    rw [Int.toNat_of_nonneg ha]

theorem normAxes_agree {nd : Nat} {ax : List Int} {p1 p0 : List Nat} (hl : ax.length = nd)
    (h1 : normAxes nd 1 ax = .ok p1) (h0 : normAxes nd 0 ax = .ok p0) : p1 = p0 := by
  have hp1 := normAxes_isPerm hl h1
  have hp0 := normAxes_isPerm hl h0
  have hs : p1.sum = p0.sum := by rw [hp1.perm.sum_eq, hp0.perm.sum_eq]
  -- unfold both
  unfold normAxes at h1 h0
  simp only at h1 h0
  split at h1
  · rename_i hall1
    split at h1
    · split at h0
      · rename_i hall0
        split at h0
        · cases h1; cases h0
          have e1 : ((ax.map (fun a => if a < 0 then a + ((nd + 1 : Nat) : Int) else a)).map Int.toNat).sum
              = ((ax.map (fun a => if a < 0 then a + ((nd + 0 : Nat) : Int) else a)).map Int.toNat).sum := hs
          have c1 := sum_toNat (ax.map (fun a => if a < 0 then a + ((nd + 1 : Nat) : Int) else a)) (by
            intro a ha
            have := (List.all_eq_true.1 hall1) a ha
            simp only [Bool.and_eq_true, decide_eq_true_eq] at this
            exact this.1)
          have c0 := sum_toNat (ax.map (fun a => if a < 0 then a + ((nd + 0 : Nat) : Int) else a)) (by
            intro a ha
            have := (List.all_eq_true.1 hall0) a ha
            simp only [Bool.and_eq_true, decide_eq_true_eq] at this
            exact this.1)
          have hsum := sum_norm_axes ax (nd : Int)
          have e2 : (((nd + 1 : Nat) : Int)) = (nd : Int) + 1 := by push_cast; ring
          have e3 : (((nd + 0 : Nat) : Int)) = (nd : Int) := by simp
          rw [e2] at c1 e1
          rw [e3] at c0 e1
          have hz : ((ax.filter (fun a => decide (a < 0))).length : Int) = 0 := by
            have : ((((ax.map (fun a => if a < 0 then a + ((nd : Int) + 1) else a)).map Int.toNat).sum : Nat) : Int)
                = (((ax.map (fun a => if a < 0 then a + (nd : Int) else a)).map Int.toNat).sum : Nat) := by
              exact_mod_cast e1
            rw [c1, c0, hsum] at this
            omega
          have hnn : ∀ a ∈ ax, ¬ a < 0 := by
            intro a ha hneg
            have : a ∈ ax.filter (fun a => decide (a < 0)) := List.mem_filter.2 ⟨ha, by simpa using hneg⟩
            have hpos : 0 < (ax.filter (fun a => decide (a < 0))).length := List.length_pos_of_mem this
            omega
          congr 1
          apply List.map_congr_left
          intro a ha
          simp [hnn a ha]
        · cases h0
      · cases h0
    · cases h1
  · cases h1

end Orix.NDArray
