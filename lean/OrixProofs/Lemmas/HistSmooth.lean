import Mathlib.Algebra.BigOperators.Intervals
import Mathlib.Algebra.BigOperators.Ring.Finset
import Mathlib.Algebra.Order.BigOperators.Ring.Finset
import Mathlib.Tactic.Ring
import Mathlib.Tactic.Linarith
import Mathlib.Tactic.Positivity
import OrixProofs.Lemmas.RealScalar
import OrixModel.Hist
/-
Smoothing by correlation with a finite kernel under the boundary rules "wrap" and "reflect"
(`scipy.ndimage.correlate1d`): total mass is multiplied by the kernel sum — for *every* kernel under "wrap",
for every *symmetric* kernel under "reflect".
-/
namespace Orix.HistLemmas
open Orix Scalar Hist Finset

theorem sumTo_eq (n : Nat) (g : Nat → ℝ) : sumTo n g = ∑ k ∈ range n, g k := by
  induction n with
  | zero => simp [sumTo]
  | succ k ih => simp [sumTo, ih, Finset.sum_range_succ]

theorem wrapIdx_cast (n : Nat) (hn : 0 < n) (j : ℤ) : ((wrapIdx n j : Nat) : ℤ) = j % (n : ℤ) := by
  simp only [wrapIdx]
  exact Int.toNat_of_nonneg (Int.emod_nonneg _ (by omega))

theorem wrapIdx_lt (n : Nat) (hn : 0 < n) (j : ℤ) : wrapIdx n j < n := by
  have h1 := wrapIdx_cast n hn j
  have h2 : j % (n : ℤ) < n := Int.emod_lt_of_pos _ (by omega)
  omega

theorem wrapIdx_of_lt (n : Nat) (i : Nat) (hi : i < n) : wrapIdx n (i : ℤ) = i := by
  have hn : 0 < n := by omega
  have h1 := wrapIdx_cast n hn i
  rw [Int.emod_eq_of_lt (by omega) (by omega)] at h1
  omega

theorem wrapIdx_shift_back (n : Nat) (hn : 0 < n) (j d : ℤ) :
    wrapIdx n (((wrapIdx n (j + d) : Nat) : ℤ) - d) = wrapIdx n j := by
  have : ((wrapIdx n (((wrapIdx n (j + d) : Nat) : ℤ) - d) : Nat) : ℤ) = ((wrapIdx n j : Nat) : ℤ) := by
    rw [wrapIdx_cast n hn, wrapIdx_cast n hn, wrapIdx_cast n hn, Int.sub_emod, Int.emod_emod, ← Int.sub_emod]
    congr 1; ring
  exact_mod_cast this

/-- a cyclic shift permutes the `n` positions -/
theorem wrap_shift (n : Nat) (hn : 0 < n) (F : Nat → ℝ) (d : ℤ) :
    ∑ i ∈ range n, F (wrapIdx n ((i : ℤ) + d)) = ∑ i ∈ range n, F i := by
  apply Finset.sum_nbij' (fun i : ℕ => wrapIdx n ((i : ℤ) + d)) (fun j : ℕ => wrapIdx n ((j : ℤ) - d))
  · intro i _; simp only [mem_range]; exact wrapIdx_lt n hn _
  · intro j _; simp only [mem_range]; exact wrapIdx_lt n hn _
  · intro i hi
    simp only [mem_range] at hi
    rw [wrapIdx_shift_back n hn, wrapIdx_of_lt n i hi]
  · intro j hj
    simp only [mem_range] at hj
    have := wrapIdx_shift_back n hn (j : ℤ) (-d)
    simp only [sub_neg_eq_add] at this
    rw [← sub_eq_add_neg] at this
    rw [this, wrapIdx_of_lt n j hj]
  · intro i _; rfl

/-- mode "wrap": the correlation multiplies the total by the kernel sum, whatever the kernel -/
theorem corr1_wrap_mass (n r : Nat) (hn : 0 < n) (w f : Nat → ℝ) :
    ∑ i ∈ range n, corr1 wrapIdx n r w f i = (∑ k ∈ range (2 * r + 1), w k) * ∑ i ∈ range n, f i := by
  simp only [corr1, sumTo_eq]
  rw [Finset.sum_comm, Finset.sum_mul]
  apply Finset.sum_congr rfl
  intro k _
  rw [← Finset.mul_sum]
  congr 1
  have := wrap_shift n hn f ((k : ℤ) - (r : ℤ))
  rw [← this]
  apply Finset.sum_congr rfl
  intro i _
  congr 2; ring


/-! ### mode "reflect" -/

/-- position `m ∈ [0, 2n)` of the doubled period folded back to `[0, n)` -/
def fold2 (n m : Nat) : Nat := if m < n then m else 2 * n - 1 - m

theorem reflectIdx_eq (n : Nat) (j : ℤ) : reflectIdx n j = fold2 n (wrapIdx (2 * n) j) := by
  simp only [reflectIdx, wrapIdx, fold2]; push_cast; rfl

theorem wrapIdx_neg (P : Nat) (hP : 0 < P) (j : ℤ) : wrapIdx P (-1 - j) = P - 1 - wrapIdx P j := by
  have h0 := wrapIdx_cast P hP j
  have h1 := wrapIdx_cast P hP (-1 - j)
  have hl := wrapIdx_lt P hP j
  have key : (-1 - j) % (P : ℤ) = (P : ℤ) - 1 - j % (P : ℤ) := by
    have hdiv := Int.emod_add_mul_ediv j (P : ℤ)
    have : -1 - j = ((P : ℤ) - 1 - j % (P : ℤ)) + (P : ℤ) * (-(j / (P : ℤ)) - 1) := by
      linear_combination hdiv
    rw [this, Int.add_mul_emod_self_left]
    apply Int.emod_eq_of_lt
    · have := Int.emod_lt_of_pos j (show (0 : ℤ) < P by omega); omega
    · have := Int.emod_nonneg j (show (P : ℤ) ≠ 0 by omega); omega
  rw [key, ← h0] at h1
  omega

theorem fold2_neg (n m : Nat) (hm : m < 2 * n) : fold2 n (2 * n - 1 - m) = fold2 n m := by
  simp only [fold2]; split <;> split <;> omega

theorem reflectIdx_neg (n : Nat) (hn : 0 < n) (j : ℤ) : reflectIdx n (-1 - j) = reflectIdx n j := by
  rw [reflectIdx_eq, reflectIdx_eq, wrapIdx_neg (2 * n) (by omega), fold2_neg n _ (wrapIdx_lt (2 * n) (by omega) j)]

theorem reflectIdx_lt (n : Nat) (hn : 0 < n) (j : ℤ) : reflectIdx n j < n := by
  rw [reflectIdx_eq]
  have := wrapIdx_lt (2 * n) (by omega) j
  simp only [fold2]; split <;> omega

/-- a window and its mirror image together cover one full period of the reflected signal -/
theorem reflect_pair (n : Nat) (hn : 0 < n) (f : Nat → ℝ) (d : ℤ) :
    (∑ i ∈ range n, f (reflectIdx n ((i : ℤ) + d))) + (∑ i ∈ range n, f (reflectIdx n ((i : ℤ) - d)))
      = 2 * ∑ i ∈ range n, f i := by
  -- the mirrored window, re-indexed
  have h2 : ∑ i ∈ range n, f (reflectIdx n ((i : ℤ) - d))
      = ∑ i ∈ range n, f (reflectIdx n ((i : ℤ) + (d - n))) := by
    rw [← Finset.sum_range_reflect (fun i => f (reflectIdx n ((i : ℤ) + (d - n)))) n]
    apply Finset.sum_congr rfl
    intro i hi
    simp only [mem_range] at hi
    rw [← reflectIdx_neg n hn ((i : ℤ) - d)]
    congr 2
    have : ((n - 1 - i : Nat) : ℤ) = (n : ℤ) - 1 - i := by omega
    rw [this]; ring
  have h1 : ∑ i ∈ range n, f (reflectIdx n ((i : ℤ) + d))
      = ∑ i ∈ range n, f (reflectIdx n (((n + i : Nat) : ℤ) + (d - n))) := by
    apply Finset.sum_congr rfl
    intro i _
    congr 2; push_cast; ring
  rw [h1, h2, add_comm, ← Finset.sum_range_add (fun i => f (reflectIdx n ((i : ℤ) + (d - n)))) n n]
  have h3 : ∑ i ∈ range (n + n), f (reflectIdx n ((i : ℤ) + (d - n)))
      = ∑ i ∈ range (2 * n), f (fold2 n (wrapIdx (2 * n) ((i : ℤ) + (d - n)))) := by
    rw [two_mul]
    apply Finset.sum_congr rfl
    intro i _
    simp only [reflectIdx_eq, two_mul]
  have h6 := wrap_shift (2 * n) (by omega) (fun m => f (fold2 n m)) (d - n)
  rw [h3, h6, two_mul n, Finset.sum_range_add]
  have h4 : ∑ i ∈ range n, f (fold2 n i) = ∑ i ∈ range n, f i := by
    apply Finset.sum_congr rfl
    intro i hi
    simp only [mem_range] at hi
    simp only [fold2, hi, if_true]
  have h5 : ∑ i ∈ range n, f (fold2 n (n + i)) = ∑ i ∈ range n, f i := by
    rw [← Finset.sum_range_reflect f n]
    apply Finset.sum_congr rfl
    intro i hi
    simp only [mem_range] at hi
    congr 1
    simp only [fold2]
    split <;> omega
  rw [h4, h5]; ring

/-- mode "reflect": a *symmetric* kernel multiplies the total by the kernel sum -/
theorem corr1_reflect_mass (n r : Nat) (hn : 0 < n) (w f : Nat → ℝ)
    (hsym : ∀ k, k ≤ 2 * r → w (2 * r - k) = w k) :
    ∑ i ∈ range n, corr1 reflectIdx n r w f i = (∑ k ∈ range (2 * r + 1), w k) * ∑ i ∈ range n, f i := by
  simp only [corr1, sumTo_eq]
  rw [Finset.sum_comm]
  -- S k = window sum at offset k - r
  set S : Nat → ℝ := fun k => ∑ i ∈ range n, f (reflectIdx n ((i : ℤ) + (k : ℤ) - (r : ℤ))) with hS
  have hL : ∑ k ∈ range (2 * r + 1), ∑ i ∈ range n, w k * f (reflectIdx n ((i : ℤ) + (k : ℤ) - (r : ℤ)))
      = ∑ k ∈ range (2 * r + 1), w k * S k := by
    apply Finset.sum_congr rfl; intro k _; rw [hS, Finset.mul_sum]
  rw [hL]
  -- mirror the kernel index
  have hM : ∑ k ∈ range (2 * r + 1), w k * S k = ∑ k ∈ range (2 * r + 1), w k * S (2 * r - k) := by
    rw [← Finset.sum_range_reflect (fun k => w k * S k) (2 * r + 1)]
    apply Finset.sum_congr rfl
    intro k hk
    simp only [mem_range] at hk
    have : 2 * r + 1 - 1 - k = 2 * r - k := by omega
    rw [this, hsym k (by omega)]
  have hP : ∀ k ∈ range (2 * r + 1), S k + S (2 * r - k) = 2 * ∑ i ∈ range n, f i := by
    intro k hk
    simp only [mem_range] at hk
    have := reflect_pair n hn f ((k : ℤ) - (r : ℤ))
    rw [← this, hS]
    congr 1
    · apply Finset.sum_congr rfl; intro i _; congr 2; ring
    · apply Finset.sum_congr rfl; intro i _; congr 2
      have : ((2 * r - k : Nat) : ℤ) = 2 * (r : ℤ) - k := by omega
      rw [this]; ring
  have h2 : 2 * ∑ k ∈ range (2 * r + 1), w k * S k
      = 2 * ((∑ k ∈ range (2 * r + 1), w k) * ∑ i ∈ range n, f i) := by
    calc 2 * ∑ k ∈ range (2 * r + 1), w k * S k
        = (∑ k ∈ range (2 * r + 1), w k * S k) + ∑ k ∈ range (2 * r + 1), w k * S (2 * r - k) := by
          rw [← hM]; ring
      _ = ∑ k ∈ range (2 * r + 1), w k * (S k + S (2 * r - k)) := by
          rw [← Finset.sum_add_distrib]; apply Finset.sum_congr rfl; intro k _; ring
      _ = ∑ k ∈ range (2 * r + 1), w k * (2 * ∑ i ∈ range n, f i) := by
          apply Finset.sum_congr rfl; intro k hk; rw [hP k hk]
      _ = 2 * ((∑ k ∈ range (2 * r + 1), w k) * ∑ i ∈ range n, f i) := by
          rw [← Finset.sum_mul]; ring
  linarith

theorem corr1_nonneg (ext : Nat → ℤ → Nat) (n r : Nat) (w f : Nat → ℝ) (hw : ∀ k, 0 ≤ w k) (hf : ∀ i, 0 ≤ f i)
    (i : Nat) : 0 ≤ corr1 ext n r w f i := by
  simp only [corr1, sumTo_eq]
  exact Finset.sum_nonneg (fun k _ => mul_nonneg (hw k) (hf _))

/-- The contract assumed of `scipy.ndimage.gaussian_filter`'s 1-d kernel (radius `r`, weights `w 0 … w (2r)`):
non-negative, symmetric, normalised. -/
structure KernelContract (r : Nat) (w : Nat → ℝ) : Prop where
  nonneg : ∀ k, 0 ≤ w k
  symm : ∀ k, k ≤ 2 * r → w (2 * r - k) = w k
  normalised : ∑ k ∈ range (2 * r + 1), w k = 1

end Orix.HistLemmas
