import Mathlib.Tactic.Ring
import Mathlib.Tactic.FieldSimp
import Mathlib.Tactic.LinearCombination
import Mathlib.Tactic.Positivity
import Mathlib.Tactic.NormNum
import Mathlib.Tactic.Linarith
import Mathlib.Analysis.SpecialFunctions.Trigonometric.Bounds
import Mathlib.Analysis.SpecialFunctions.Trigonometric.Inverse
import OrixProofs.Lemmas.RealScalar
import OrixProofs.Lemmas.SamplingBasic
import OrixProofs.Lemmas.SamplingUV
import OrixModel.Sampling
/-
Helper lemmas for C19, part 5: the equal-area mesh (`_sample_S2_equal_area_coordinates`, `sample_S2_equal_area_mesh`).

The mesh samples cos θ uniformly (`2D + 1` values from 1 to −1, `D = ⌈90/r⌉`) and the azimuth uniformly (`4D` values).
Covering argument: a direction `(θ, φ)` has a node `(θ', φ')` with `|cos θ − cos θ'| ≤ 1/(2D)` and `|φ − φ'| ≤ π/(4D)`;
`cos(θ − θ') ≥ 1 − |cos θ − cos θ'|` for polar angles in `[0, π]`; and
`v·w = cos(θ−θ')·(1+c)/2 + cos(θ+θ')·(1−c)/2` with `c = cos(φ − φ')`.
-/
namespace Orix.SamplingLemmas
open Orix Scalar Sampling LatLemmas

/-- the scalar product of two spherical directions -/
theorem sph_dot (θ φ θ' φ' : ℝ) :
    Vec3.dot (sph θ φ) (sph θ' φ') = Real.cos θ * Real.cos θ' + Real.sin θ * Real.sin θ' * Real.cos (φ - φ') := by
  simp only [sph, Vec3.dot, Real.cos_sub]
  ring

/-- the same, split into the two polar combinations -/
theorem sph_dot_split (θ φ θ' φ' : ℝ) :
    Vec3.dot (sph θ φ) (sph θ' φ')
      = Real.cos (θ - θ') * ((1 + Real.cos (φ - φ')) / 2) + Real.cos (θ + θ') * ((1 - Real.cos (φ - φ')) / 2) := by
  rw [sph_dot, Real.cos_sub θ θ', Real.cos_add θ θ']
  ring

/-- POLAR BOUND: for polar angles in `[0, π]`, `cos(θ − θ') ≥ 1 − |cos θ − cos θ'|` — sampling cos θ with spacing `h`
leaves angular gaps whose cosine is at least `1 − h/2` (not `cos(h/2)`: the gaps are widest at the poles) -/
theorem cos_sub_ge_of_cos_close {θ θ' : ℝ} (h0 : 0 ≤ θ) (h1 : θ ≤ Real.pi) (h0' : 0 ≤ θ') (h1' : θ' ≤ Real.pi) :
    1 - |Real.cos θ - Real.cos θ'| ≤ Real.cos (θ - θ') := by
  have hs : 0 ≤ Real.sin θ := Real.sin_nonneg_of_nonneg_of_le_pi h0 h1
  have hs' : 0 ≤ Real.sin θ' := Real.sin_nonneg_of_nonneg_of_le_pi h0' h1'
  have e := Real.sin_sq_add_cos_sq θ
  have e' := Real.sin_sq_add_cos_sq θ'
  have hu := Real.cos_le_one θ
  have hu' := Real.cos_le_one θ'
  have hl := Real.neg_one_le_cos θ
  have hl' := Real.neg_one_le_cos θ'
  rw [Real.cos_sub]
  set u := Real.cos θ
  set u' := Real.cos θ'
  set s := Real.sin θ
  set s' := Real.sin θ'
  have hss : 0 ≤ s * s' := mul_nonneg hs hs'
  -- the two cases of the absolute value are symmetric
  have key : ∀ a b sa sb : ℝ, 0 ≤ sa * sb → sa ^ 2 + a ^ 2 = 1 → sb ^ 2 + b ^ 2 = 1 → a ≤ 1 → -1 ≤ b → b ≤ a →
      1 - (a - b) ≤ a * b + sa * sb := by
    intro a b sa sb hsab ea eb ha hb hab
    by_contra hcon
    rw [not_le] at hcon
    -- `sa·sb < (1 − a)(1 + b)` with both sides non-negative
    have hR : sa * sb < (1 - a) * (1 + b) := by nlinarith
    have hsq : (sa * sb) ^ 2 < ((1 - a) * (1 + b)) ^ 2 := by
      apply pow_lt_pow_left₀ hR hsab (by norm_num)
    have hprod : (sa * sb) ^ 2 = (1 - a) * (1 + a) * ((1 - b) * (1 + b)) := by
      have : (sa * sb) ^ 2 = sa ^ 2 * sb ^ 2 := by ring
      rw [this]
      have h1 : sa ^ 2 = (1 - a) * (1 + a) := by linear_combination ea
      have h2 : sb ^ 2 = (1 - b) * (1 + b) := by linear_combination eb
      rw [h1, h2]
    have hdiff : (1 - a) * (1 + a) * ((1 - b) * (1 + b)) - ((1 - a) * (1 + b)) ^ 2
        = (1 - a) * (1 + b) * (2 * (a - b)) := by ring
    have hnn : 0 ≤ (1 - a) * (1 + b) * (2 * (a - b)) :=
      mul_nonneg (mul_nonneg (by linarith) (by linarith)) (by linarith)
    linarith
  rcases le_total u' u with h | h
  · rw [abs_of_nonneg (by linarith)]
    exact key u u' s s' hss e e' hu hl' h
  · rw [abs_of_nonpos (by linarith)]
    have := key u' u s' s (by rw [mul_comm]; exact hss) e' e hu' hl h
    linarith [mul_comm u u', mul_comm s s']

/-- DOT BOUND: polar cosines within `δ`, azimuths with `cos(φ − φ') ≥ c0 ≥ −1` give `v·w ≥ c0 − δ` -/
theorem sph_dot_ge {θ φ θ' φ' δ c0 : ℝ} (h0 : 0 ≤ θ) (h1 : θ ≤ Real.pi) (h0' : 0 ≤ θ') (h1' : θ' ≤ Real.pi)
    (hδ : |Real.cos θ - Real.cos θ'| ≤ δ) (hc : c0 ≤ Real.cos (φ - φ')) :
    c0 - δ ≤ Vec3.dot (sph θ φ) (sph θ' φ') := by
  rw [sph_dot_split]
  have hp := cos_sub_ge_of_cos_close h0 h1 h0' h1'
  have hc1 := Real.cos_le_one (φ - φ')
  have hcm := Real.neg_one_le_cos (φ - φ')
  have hq := Real.neg_one_le_cos (θ + θ')
  have hδ0 : 0 ≤ δ := le_trans (abs_nonneg _) hδ
  set c := Real.cos (φ - φ')
  have hA : (1 - δ) * ((1 + c) / 2) ≤ Real.cos (θ - θ') * ((1 + c) / 2) :=
    mul_le_mul_of_nonneg_right (by linarith) (by linarith)
  have hB : (-1) * ((1 - c) / 2) ≤ Real.cos (θ + θ') * ((1 - c) / 2) :=
    mul_le_mul_of_nonneg_right hq (by linarith)
  nlinarith

/-! ### `_sample_S2_equal_area_coordinates` over ℝ -/

/-- `D = ⌈90 / r⌉`, the number of steps per quarter turn -/
noncomputable def nEA (r : ℝ) : ℕ := ⌈90 / r⌉.toNat

theorem nEA_pos {r : ℝ} (hr : 0 < r) : 0 < nEA r := by
  have : 0 < ⌈90 / r⌉ := Int.ceil_pos.mpr (by positivity)
  unfold nEA; omega

theorem nEA_cast {r : ℝ} (hr : 0 < r) : ((nEA r : ℕ) : ℝ) = (⌈90 / r⌉ : ℝ) := by
  have h : 0 ≤ ⌈90 / r⌉ := (Int.ceil_pos.mpr (by positivity)).le
  have : ((nEA r : ℕ) : ℤ) = ⌈90 / r⌉ := Int.toNat_of_nonneg h
  exact_mod_cast this

/-- `90 / D ≤ r` -/
theorem nEA_step_le {r : ℝ} (hr : 0 < r) : 90 / (nEA r : ℝ) ≤ r := by
  rw [nEA_cast hr]; exact div_ceil_le 90 r (by norm_num) hr

/-- azimuth and cos-polar grid lines of the full-sphere equal-area mesh -/
noncomputable def eaAzLine (r : ℝ) (j : ℕ) : ℝ := (j : ℝ) * (2 * Real.pi / ((4 * nEA r : ℕ) : ℝ))
noncomputable def eaCosLine (r : ℝ) (i : ℕ) : ℝ := 1 - (i : ℝ) * (2 / ((2 * nEA r : ℕ) : ℝ))
noncomputable def eaPolLine (r : ℝ) (i : ℕ) : ℝ := Real.arccos (eaCosLine r i)

theorem eaCosLine_mem {r : ℝ} (hr : 0 < r) {i : ℕ} (hi : i ≤ 2 * nEA r) : -1 ≤ eaCosLine r i ∧ eaCosLine r i ≤ 1 := by
  have hD : (0 : ℝ) < ((2 * nEA r : ℕ) : ℝ) := by exact_mod_cast Nat.mul_pos (by norm_num) (nEA_pos hr)
  have hi' : (i : ℝ) ≤ ((2 * nEA r : ℕ) : ℝ) := by exact_mod_cast hi
  have hstep : 0 ≤ 2 / ((2 * nEA r : ℕ) : ℝ) := by positivity
  have h1 : (i : ℝ) * (2 / ((2 * nEA r : ℕ) : ℝ)) ≤ ((2 * nEA r : ℕ) : ℝ) * (2 / ((2 * nEA r : ℕ) : ℝ)) :=
    mul_le_mul_of_nonneg_right hi' hstep
  have h2 : ((2 * nEA r : ℕ) : ℝ) * (2 / ((2 * nEA r : ℕ) : ℝ)) = 2 := by field_simp
  have h3 : 0 ≤ (i : ℝ) * (2 / ((2 * nEA r : ℕ) : ℝ)) := by positivity
  unfold eaCosLine
  constructor <;> linarith

/-- CLOSED FORM of `_sample_S2_equal_area_coordinates(r, "both")` for every `r > 0`: no error branch, `4D` azimuths
`j·2π/(4D)` and `2D + 1` polar angles `arccos(1 − i/D)` -/
theorem eaCoordinates_both (r : ℝ) (hr : 0 < r) :
    ∃ c, eaCoordinates r .both false = .ok c ∧ c.steps = (nEA r : ℤ)
      ∧ c.azimuth = (List.range (4 * nEA r)).map (eaAzLine r)
      ∧ c.polar = (List.range (2 * nEA r + 1)).map (eaPolLine r) := by
  have hr0 : ¬ (Scalar.beq r (0 : ℝ) = true) := by simp [hr.ne']
  have hc : 0 < ⌈90 / r⌉ := Int.ceil_pos.mpr (by positivity)
  have hDz : ((nEA r : ℕ) : ℤ) = ⌈90 / r⌉ := Int.toNat_of_nonneg hc.le
  have hpi := Real.pi_pos
  have h4 : (2 * Real.pi - 0) / (Real.pi / 2) * (⌈90 / r⌉ : ℝ) = ((4 * ⌈90 / r⌉ : ℤ) : ℝ) := by
    push_cast; field_simp; ring
  have hceil : ⌈(2 * Real.pi - 0) / (Real.pi / 2) * (⌈90 / r⌉ : ℝ)⌉ = 4 * ⌈90 / r⌉ := by
    rw [h4, Int.ceil_intCast]
  unfold eaCoordinates
  simp only [ceilInt_real, lit_real, ofInt_real, pi_real, Nat.cast_zero, Nat.cast_ofNat, Hemisphere.polarCos,
    Bool.false_eq_true, if_false]
  rw [if_neg hr0]
  simp only [hceil]
  rw [if_neg (by omega), if_neg (by omega)]
  refine ⟨_, rfl, hDz.symm, ?_, ?_⟩
  · have hn : (4 * ⌈90 / r⌉).toNat = 4 * nEA r := by unfold nEA; omega
    simp only [hn]
    rw [linspace_real]
    apply List.map_congr_left
    intro j _
    simp only [eaAzLine, linStep, linspaceDiv, sub_zero, zero_add, Bool.false_eq_true, if_false]
  · have hn : ((1 - -1) * ⌈90 / r⌉ + 1).toNat = 2 * nEA r + 1 := by unfold nEA; omega
    simp only [hn]
    rw [linspace_real, List.map_map]
    apply List.map_congr_left
    intro i _
    simp only [Function.comp, eaPolLine, eaCosLine, linStep, linspaceDiv, acos_real, if_true, Int.cast_one,
      Int.cast_neg, Nat.add_sub_cancel]
    congr 1
    ring

/-- NODE NEAR EVERY DIRECTION: every direction `(θ, φ)` has a grid node `(i, j)` with scalar product at least
`cos(π/(4D)) − 1/(2D)` -/
theorem ea_node_near {r : ℝ} (hr : 0 < r) {θ φ : ℝ} (hθ0 : 0 ≤ θ) (hθ1 : θ ≤ Real.pi) (hφ0 : 0 ≤ φ)
    (hφ1 : φ ≤ 2 * Real.pi) :
    ∃ i j : ℕ, i ≤ 2 * nEA r ∧ j < 4 * nEA r ∧
      Real.cos (Real.pi / (4 * (nEA r : ℝ))) - 1 / (2 * (nEA r : ℝ))
        ≤ Vec3.dot (sph θ φ) (sph (eaPolLine r i) (eaAzLine r j)) := by
  have hDpos := nEA_pos hr
  have hD : (0 : ℝ) < (nEA r : ℝ) := by exact_mod_cast hDpos
  have hu := Real.cos_le_one θ
  have hl := Real.neg_one_le_cos θ
  obtain ⟨i, hi, hdi⟩ := grid_cover (2 * nEA r) (by omega) 2 (by norm_num) (1 - Real.cos θ) (by linarith) (by linarith)
  obtain ⟨j, hj, hdj⟩ := grid_cover (4 * nEA r) (by omega) (2 * Real.pi) (by positivity) φ hφ0 hφ1
  have hcm := eaCosLine_mem hr hi
  have hcos : Real.cos (eaPolLine r i) = eaCosLine r i := Real.cos_arccos hcm.1 hcm.2
  have hδ : |Real.cos θ - Real.cos (eaPolLine r i)| ≤ 1 / (2 * (nEA r : ℝ)) := by
    rw [hcos]
    have e : Real.cos θ - eaCosLine r i = -((1 - Real.cos θ) - (i : ℝ) * (2 / ((2 * nEA r : ℕ) : ℝ))) := by
      unfold eaCosLine; ring
    rw [e, abs_neg]
    have e2 : (2 : ℝ) / ((2 * nEA r : ℕ) : ℝ) / 2 = 1 / (2 * (nEA r : ℝ)) := by push_cast; field_simp
    rw [← e2]; exact hdi
  have hstep : 2 * Real.pi / ((4 * nEA r : ℕ) : ℝ) / 2 = Real.pi / (4 * (nEA r : ℝ)) := by
    push_cast; field_simp
  have hang0 : 0 ≤ Real.pi / (4 * (nEA r : ℝ)) := by positivity
  have hangpi : Real.pi / (4 * (nEA r : ℝ)) ≤ Real.pi := by
    rw [div_le_iff₀ (by positivity)]
    have : (1 : ℝ) ≤ (nEA r : ℝ) := by exact_mod_cast hDpos
    nlinarith [Real.pi_pos]
  -- cosine of an azimuth difference within half a step
  have hcosΔ : ∀ x : ℝ, |x| ≤ Real.pi / (4 * (nEA r : ℝ)) → Real.cos (Real.pi / (4 * (nEA r : ℝ))) ≤ Real.cos x := by
    intro x hx
    rw [← Real.cos_abs x]
    exact Real.cos_le_cos_of_nonneg_of_le_pi (abs_nonneg _) hangpi hx
  have hpol0 : 0 ≤ eaPolLine r i := Real.arccos_nonneg _
  have hpol1 : eaPolLine r i ≤ Real.pi := Real.arccos_le_pi _
  rcases Nat.lt_or_ge j (4 * nEA r) with hlt | hge
  · refine ⟨i, j, hi, hlt, ?_⟩
    apply sph_dot_ge hθ0 hθ1 hpol0 hpol1 hδ
    apply hcosΔ
    rw [← hstep]; exact hdj
  · have hjN : j = 4 * nEA r := le_antisymm hj hge
    have hN0 : ((4 * nEA r : ℕ) : ℝ) ≠ 0 := by exact_mod_cast (by omega : 4 * nEA r ≠ 0)
    have e : ((4 * nEA r : ℕ) : ℝ) * (2 * Real.pi / ((4 * nEA r : ℕ) : ℝ)) = 2 * Real.pi := by field_simp
    refine ⟨i, 0, hi, by omega, ?_⟩
    apply sph_dot_ge hθ0 hθ1 hpol0 hpol1 hδ
    have hz : eaAzLine r 0 = 0 := by simp [eaAzLine]
    rw [hz, sub_zero]
    have hper : Real.cos φ = Real.cos (φ - 2 * Real.pi) := (Real.cos_sub_two_pi φ).symm
    rw [hper]
    apply hcosΔ
    rw [← hstep]
    have : φ - 2 * Real.pi = φ - (j : ℝ) * (2 * Real.pi / ((4 * nEA r : ℕ) : ℝ)) := by rw [hjN, e]
    rw [this]; exact hdj

/-- the bound in terms of the resolution: `cos(π/(4D)) − 1/(2D) ≥ cos(r·π/360) − r/180` for `0 < r ≤ 360` -/
theorem ea_bound_resolution {r : ℝ} (hr : 0 < r) (hr' : r ≤ 360) :
    Real.cos (r * Real.pi / 360) - r / 180 ≤ Real.cos (Real.pi / (4 * (nEA r : ℝ))) - 1 / (2 * (nEA r : ℝ)) := by
  have hD : (0 : ℝ) < (nEA r : ℝ) := by exact_mod_cast nEA_pos hr
  have hstep := nEA_step_le hr
  have hpi := Real.pi_pos
  have h1 : 1 / (2 * (nEA r : ℝ)) ≤ r / 180 := by
    have : 1 / (2 * (nEA r : ℝ)) = (90 / (nEA r : ℝ)) / 180 := by field_simp; ring
    rw [this]; exact div_le_div_of_nonneg_right hstep (by norm_num)
  have h2 : Real.pi / (4 * (nEA r : ℝ)) ≤ r * Real.pi / 360 := by
    have : Real.pi / (4 * (nEA r : ℝ)) = (90 / (nEA r : ℝ)) * (Real.pi / 360) := by field_simp; ring
    rw [this]
    calc 90 / (nEA r : ℝ) * (Real.pi / 360) ≤ r * (Real.pi / 360) := mul_le_mul_of_nonneg_right hstep (by positivity)
      _ = r * Real.pi / 360 := by ring
  have h3 : Real.cos (r * Real.pi / 360) ≤ Real.cos (Real.pi / (4 * (nEA r : ℝ))) := by
    apply Real.cos_le_cos_of_nonneg_of_le_pi (by positivity) _ h2
    calc r * Real.pi / 360 ≤ 360 * Real.pi / 360 := by
          apply div_le_div_of_nonneg_right _ (by norm_num)
          exact mul_le_mul_of_nonneg_right hr' hpi.le
      _ = Real.pi := by ring
  linarith

/-! ### pole duplicates -/

/-- the polar lines other than the two poles are farther from `0` and `π` than the `np.isclose` windows, for
`r ≥ 0.002°` (`D ≤ 45001`) -/
theorem eaPolLine_off_pole {r : ℝ} (hr : 1 / 500 ≤ r) {i : ℕ} (hi0 : 0 < i) (hi : i < 2 * nEA r) :
    1 / 10 ^ 8 + 1 / 10 ^ 5 * Real.pi < eaPolLine r i ∧ eaPolLine r i < Real.pi - (1 / 10 ^ 8 + 1 / 10 ^ 5 * Real.pi) := by
  have hr0 : 0 < r := by linarith
  have hDpos := nEA_pos hr0
  have hD : (0 : ℝ) < (nEA r : ℝ) := by exact_mod_cast hDpos
  have hDle : ((nEA r : ℕ) : ℝ) < 45001 := by
    rw [nEA_cast hr0]
    have h1 : (⌈90 / r⌉ : ℝ) < 90 / r + 1 := Int.ceil_lt_add_one _
    have h2 : 90 / r ≤ 45000 := by rw [div_le_iff₀ hr0]; linarith
    linarith
  have hpi3 := Real.two_le_pi
  have hpi4 := Real.pi_le_four
  set ε : ℝ := 1 / 10 ^ 8 + 1 / 10 ^ 5 * Real.pi with hε
  have hε0 : 0 < ε := by positivity
  have hε1 : ε < 1 / 10 ^ 4 := by rw [hε]; nlinarith
  have hεpi : ε ≤ Real.pi := by linarith
  -- `cos ε > 1 − 1/D` and `cos(π − ε) < −1 + 1/D`
  have hcosε : 1 - 1 / (nEA r : ℝ) < Real.cos ε := by
    have h1 := Real.one_sub_sq_div_two_le_cos (x := ε)
    have h2 : ε ^ 2 / 2 < 1 / (nEA r : ℝ) := by
      rw [lt_div_iff₀ hD]
      have : ε ^ 2 / 2 < 1 / 10 ^ 8 / 2 := by
        apply div_lt_div_of_pos_right _ (by norm_num)
        calc ε ^ 2 < (1 / 10 ^ 4) ^ 2 := pow_lt_pow_left₀ hε1 hε0.le (by norm_num)
          _ = 1 / 10 ^ 8 := by norm_num
      nlinarith
    linarith
  have hline : eaCosLine r i = 1 - (i : ℝ) / (nEA r : ℝ) := by
    unfold eaCosLine; push_cast; field_simp
  have hi0' : (1 : ℝ) ≤ (i : ℝ) := by exact_mod_cast hi0
  have hi' : (i : ℝ) + 1 ≤ 2 * (nEA r : ℝ) := by exact_mod_cast hi
  have hiD1 : 1 / (nEA r : ℝ) ≤ (i : ℝ) / (nEA r : ℝ) := div_le_div_of_nonneg_right hi0' hD.le
  have hiD2 : (i : ℝ) / (nEA r : ℝ) ≤ 2 - 1 / (nEA r : ℝ) := by
    rw [div_le_iff₀ hD]; field_simp; linarith
  have hmem := eaCosLine_mem hr0 hi.le
  constructor
  · -- `ε < arccos x ⟸ x < cos ε`
    unfold eaPolLine
    have hx : eaCosLine r i < Real.cos ε := by rw [hline]; linarith
    have hlt : Real.arccos (Real.cos ε) < Real.arccos (eaCosLine r i) :=
      Real.arccos_lt_arccos hmem.1 hx (Real.cos_le_one _)
    rwa [Real.arccos_cos hε0.le hεpi] at hlt
  · unfold eaPolLine
    have hx : Real.cos (Real.pi - ε) < eaCosLine r i := by
      rw [Real.cos_pi_sub, hline]; linarith
    have hlt : Real.arccos (eaCosLine r i) < Real.arccos (Real.cos (Real.pi - ε)) := by
      apply Real.arccos_lt_arccos (Real.neg_one_le_cos _) hx hmem.2
    rwa [Real.arccos_cos (by linarith) (by linarith)] at hlt

theorem eaPolLine_zero (r : ℝ) : eaPolLine r 0 = 0 := by
  simp [eaPolLine, eaCosLine]

theorem eaPolLine_last {r : ℝ} (hr : 0 < r) : eaPolLine r (2 * nEA r) = Real.pi := by
  have hD : ((2 * nEA r : ℕ) : ℝ) ≠ 0 := by exact_mod_cast (by have := nEA_pos hr; omega : 2 * nEA r ≠ 0)
  have : eaCosLine r (2 * nEA r) = -1 := by
    unfold eaCosLine; field_simp; ring
  rw [eaPolLine, this, Real.arccos_neg_one]

theorem eaAzLine_zero (r : ℝ) : eaAzLine r 0 = 0 := by simp [eaAzLine]

/-- POLE DUPLICATES LOSE NOTHING (for `r ≥ 0.002°`): every grid node has a node of the same direction that
`_remove_pole_duplicates` keeps -/
theorem ea_kept_node {r : ℝ} (hr : 1 / 500 ≤ r) {i j : ℕ} (hi : i ≤ 2 * nEA r) (hj : j < 4 * nEA r) :
    ∃ j', j' < 4 * nEA r ∧ sph (eaPolLine r i) (eaAzLine r j') = sph (eaPolLine r i) (eaAzLine r j)
      ∧ poleDuplicate (eaAzLine r j', eaPolLine r i) = false := by
  have hr0 : 0 < r := by linarith
  by_cases hd : poleDuplicate (eaAzLine r j, eaPolLine r i) = true
  · have hkeep0 : poleDuplicate (eaAzLine r 0, eaPolLine r i) = false := by
      rw [Bool.eq_false_iff, Ne, poleDuplicate_real, eaAzLine_zero]
      intro h; exact lt_irrefl _ h.1
    rw [poleDuplicate_real] at hd
    have hpi := Real.pi_pos
    have hpol0 : 0 ≤ eaPolLine r i := Real.arccos_nonneg _
    have hpol1 : eaPolLine r i ≤ Real.pi := Real.arccos_le_pi _
    refine ⟨0, by have := nEA_pos hr0; omega, ?_, hkeep0⟩
    by_cases hi0 : i = 0
    · subst hi0; rw [eaPolLine_zero]; exact sph_zero _ _
    by_cases hiM : i = 2 * nEA r
    · subst hiM; rw [eaPolLine_last hr0]; exact sph_pi _ _
    exfalso
    have hoff := eaPolLine_off_pole hr (Nat.pos_of_ne_zero hi0) (by omega : i < 2 * nEA r)
    rcases hd.2 with h0 | hπ
    · rw [sub_zero, abs_of_nonneg hpol0, abs_zero, mul_zero, add_zero] at h0
      have : (0 : ℝ) ≤ 1 / 10 ^ 5 * Real.pi := by positivity
      linarith [hoff.1]
    · rw [abs_sub_comm, abs_of_nonneg (by linarith), abs_of_pos hpi] at hπ
      linarith [hoff.2]
  · exact ⟨j, hj, rfl, by simpa using hd⟩

/-! ### any hemisphere -/

/-- number of cos θ intervals of width 1 and the largest cos θ of a hemisphere -/
def hspan : Hemisphere → ℕ
  | .both => 2
  | .upper => 1
  | .lower => 1
def htop : Hemisphere → ℤ
  | .both => 1
  | .upper => 1
  | .lower => 0

theorem polarCos_eq (h : Hemisphere) : h.polarCos = (htop h, htop h - (hspan h : ℤ)) := by
  cases h <;> rfl

/-- cos θ of the `i`-th polar line: `top − i/D`, written as an integer over `D` -/
noncomputable def eaCosLineH (h : Hemisphere) (r : ℝ) (i : ℕ) : ℝ :=
  (((htop h * (nEA r : ℤ) - (i : ℤ) : ℤ)) : ℝ) / (nEA r : ℝ)
noncomputable def eaPolLineH (h : Hemisphere) (r : ℝ) (i : ℕ) : ℝ := Real.arccos (eaCosLineH h r i)

theorem eaCosLineH_eq {r : ℝ} (hr : 0 < r) (h : Hemisphere) (i : ℕ) :
    eaCosLineH h r i = (htop h : ℝ) - (i : ℝ) / (nEA r : ℝ) := by
  have hD : ((nEA r : ℕ) : ℝ) ≠ 0 := by exact_mod_cast (nEA_pos hr).ne'
  unfold eaCosLineH; push_cast; field_simp

theorem eaCosLineH_mem {r : ℝ} (hr : 0 < r) (h : Hemisphere) {i : ℕ} (hi : i ≤ hspan h * nEA r) :
    (htop h : ℝ) - (hspan h : ℝ) ≤ eaCosLineH h r i ∧ eaCosLineH h r i ≤ (htop h : ℝ) := by
  have hD : (0 : ℝ) < (nEA r : ℝ) := by exact_mod_cast nEA_pos hr
  rw [eaCosLineH_eq hr]
  have hi' : (i : ℝ) ≤ (hspan h : ℝ) * (nEA r : ℝ) := by exact_mod_cast hi
  have h1 : (i : ℝ) / (nEA r : ℝ) ≤ (hspan h : ℝ) := by rw [div_le_iff₀ hD]; exact hi'
  have h2 : 0 ≤ (i : ℝ) / (nEA r : ℝ) := by positivity
  constructor <;> linarith

theorem eaCosLineH_mem_unit {r : ℝ} (hr : 0 < r) (h : Hemisphere) {i : ℕ} (hi : i ≤ hspan h * nEA r) :
    -1 ≤ eaCosLineH h r i ∧ eaCosLineH h r i ≤ 1 := by
  have := eaCosLineH_mem hr h hi
  cases h <;> simp only [htop, hspan, Int.cast_one, Int.cast_zero, Nat.cast_ofNat, Nat.cast_one] at this <;>
    constructor <;> linarith [this.1, this.2]

/-- CLOSED FORM of `_sample_S2_equal_area_coordinates(r, hemisphere)` for every `r > 0` and every hemisphere -/
theorem eaCoordinates_hemi (r : ℝ) (hr : 0 < r) (h : Hemisphere) :
    ∃ c, eaCoordinates r h false = .ok c
      ∧ c.azimuth = (List.range (4 * nEA r)).map (eaAzLine r)
      ∧ c.polar = (List.range (hspan h * nEA r + 1)).map (eaPolLineH h r) := by
  have hr0 : ¬ (Scalar.beq r (0 : ℝ) = true) := by simp [hr.ne']
  have hc : 0 < ⌈90 / r⌉ := Int.ceil_pos.mpr (by positivity)
  have hDz : ((nEA r : ℕ) : ℤ) = ⌈90 / r⌉ := Int.toNat_of_nonneg hc.le
  have hDr : ((nEA r : ℕ) : ℝ) = (⌈90 / r⌉ : ℝ) := nEA_cast hr
  have hDpos : (0 : ℝ) < (⌈90 / r⌉ : ℝ) := by exact_mod_cast hc
  have hpi := Real.pi_pos
  have h4 : (2 * Real.pi - 0) / (Real.pi / 2) * (⌈90 / r⌉ : ℝ) = ((4 * ⌈90 / r⌉ : ℤ) : ℝ) := by
    push_cast; field_simp; ring
  have hceil : ⌈(2 * Real.pi - 0) / (Real.pi / 2) * (⌈90 / r⌉ : ℝ)⌉ = 4 * ⌈90 / r⌉ := by
    rw [h4, Int.ceil_intCast]
  unfold eaCoordinates
  simp only [ceilInt_real, lit_real, ofInt_real, pi_real, Nat.cast_zero, Nat.cast_ofNat, polarCos_eq,
    Bool.false_eq_true, if_false]
  rw [if_neg hr0]
  simp only [hceil]
  have hspanpos : 0 ≤ (hspan h : ℤ) := Int.natCast_nonneg _
  have hpn : ¬ ((htop h - (htop h - (hspan h : ℤ))) * ⌈90 / r⌉ + 1 < 0) := by
    have : (htop h - (htop h - (hspan h : ℤ))) = (hspan h : ℤ) := by ring
    rw [this]; nlinarith
  rw [if_neg (by omega), if_neg hpn]
  refine ⟨_, rfl, ?_, ?_⟩
  · have hn : (4 * ⌈90 / r⌉).toNat = 4 * nEA r := by unfold nEA; omega
    simp only [hn]
    rw [linspace_real]
    apply List.map_congr_left
    intro j _
    simp only [eaAzLine, linStep, linspaceDiv, sub_zero, zero_add, Bool.false_eq_true, if_false]
  · have hn : ((htop h - (htop h - (hspan h : ℤ))) * ⌈90 / r⌉ + 1).toNat = hspan h * nEA r + 1 := by
      have : (htop h - (htop h - (hspan h : ℤ))) = (hspan h : ℤ) := by ring
      rw [this, ← hDz]
      have : ((hspan h : ℤ) * (nEA r : ℤ) + 1) = ((hspan h * nEA r + 1 : ℕ) : ℤ) := by push_cast; ring
      rw [this, Int.toNat_natCast]
    simp only [hn]
    rw [linspace_real, List.map_map]
    apply List.map_congr_left
    intro i _
    have hsp : (0 : ℝ) < (hspan h : ℝ) := by cases h <;> simp [hspan]
    simp only [Function.comp, eaPolLineH, linStep, linspaceDiv, acos_real, if_true, Nat.add_sub_cancel]
    congr 1
    rw [eaCosLineH_eq hr]
    push_cast
    have hDne : ((nEA r : ℕ) : ℝ) ≠ 0 := by rw [hDr]; exact hDpos.ne'
    field_simp
    ring

/-- NODE NEAR EVERY DIRECTION OF THE HEMISPHERE -/
theorem ea_node_near_hemi {r : ℝ} (hr : 0 < r) (h : Hemisphere) {θ φ : ℝ} (hθ0 : 0 ≤ θ) (hθ1 : θ ≤ Real.pi)
    (hφ0 : 0 ≤ φ) (hφ1 : φ ≤ 2 * Real.pi)
    (hlo : (htop h : ℝ) - (hspan h : ℝ) ≤ Real.cos θ) (hhi : Real.cos θ ≤ (htop h : ℝ)) :
    ∃ i j : ℕ, i ≤ hspan h * nEA r ∧ j < 4 * nEA r ∧
      Real.cos (Real.pi / (4 * (nEA r : ℝ))) - 1 / (2 * (nEA r : ℝ))
        ≤ Vec3.dot (sph θ φ) (sph (eaPolLineH h r i) (eaAzLine r j)) := by
  have hDpos := nEA_pos hr
  have hD : (0 : ℝ) < (nEA r : ℝ) := by exact_mod_cast hDpos
  have hsp : 0 < hspan h := by cases h <;> simp [hspan]
  have hspr : (0 : ℝ) < (hspan h : ℝ) := by exact_mod_cast hsp
  obtain ⟨i, hi, hdi⟩ := grid_cover (hspan h * nEA r) (Nat.mul_pos hsp hDpos) (hspan h : ℝ) hspr.le
    ((htop h : ℝ) - Real.cos θ) (by linarith) (by linarith)
  obtain ⟨j, hj, hdj⟩ := grid_cover (4 * nEA r) (by omega) (2 * Real.pi) (by positivity) φ hφ0 hφ1
  have hcm := eaCosLineH_mem_unit hr h hi
  have hcos : Real.cos (eaPolLineH h r i) = eaCosLineH h r i := Real.cos_arccos hcm.1 hcm.2
  have hstepc : (hspan h : ℝ) / ((hspan h * nEA r : ℕ) : ℝ) = 1 / (nEA r : ℝ) := by
    push_cast; field_simp
  have hδ : |Real.cos θ - Real.cos (eaPolLineH h r i)| ≤ 1 / (2 * (nEA r : ℝ)) := by
    rw [hcos, eaCosLineH_eq hr]
    have e : Real.cos θ - ((htop h : ℝ) - (i : ℝ) / (nEA r : ℝ))
        = -(((htop h : ℝ) - Real.cos θ) - (i : ℝ) * ((hspan h : ℝ) / ((hspan h * nEA r : ℕ) : ℝ))) := by
      rw [hstepc]; ring
    rw [e, abs_neg]
    have e2 : (hspan h : ℝ) / ((hspan h * nEA r : ℕ) : ℝ) / 2 = 1 / (2 * (nEA r : ℝ)) := by
      rw [hstepc]; field_simp
    rw [← e2]; exact hdi
  have hstep : 2 * Real.pi / ((4 * nEA r : ℕ) : ℝ) / 2 = Real.pi / (4 * (nEA r : ℝ)) := by
    push_cast; field_simp
  have hangpi : Real.pi / (4 * (nEA r : ℝ)) ≤ Real.pi := by
    rw [div_le_iff₀ (by positivity)]
    have : (1 : ℝ) ≤ (nEA r : ℝ) := by exact_mod_cast hDpos
    nlinarith [Real.pi_pos]
  have hcosΔ : ∀ x : ℝ, |x| ≤ Real.pi / (4 * (nEA r : ℝ)) → Real.cos (Real.pi / (4 * (nEA r : ℝ))) ≤ Real.cos x := by
    intro x hx
    rw [← Real.cos_abs x]
    exact Real.cos_le_cos_of_nonneg_of_le_pi (abs_nonneg _) hangpi hx
  have hpol0 : 0 ≤ eaPolLineH h r i := Real.arccos_nonneg _
  have hpol1 : eaPolLineH h r i ≤ Real.pi := Real.arccos_le_pi _
  rcases Nat.lt_or_ge j (4 * nEA r) with hlt | hge
  · refine ⟨i, j, hi, hlt, ?_⟩
    apply sph_dot_ge hθ0 hθ1 hpol0 hpol1 hδ
    apply hcosΔ
    rw [← hstep]; exact hdj
  · have hjN : j = 4 * nEA r := le_antisymm hj hge
    have hN0 : ((4 * nEA r : ℕ) : ℝ) ≠ 0 := by exact_mod_cast (by omega : 4 * nEA r ≠ 0)
    have e : ((4 * nEA r : ℕ) : ℝ) * (2 * Real.pi / ((4 * nEA r : ℕ) : ℝ)) = 2 * Real.pi := by field_simp
    refine ⟨i, 0, hi, by omega, ?_⟩
    apply sph_dot_ge hθ0 hθ1 hpol0 hpol1 hδ
    rw [eaAzLine_zero, sub_zero]
    have hper : Real.cos φ = Real.cos (φ - 2 * Real.pi) := (Real.cos_sub_two_pi φ).symm
    rw [hper]
    apply hcosΔ
    rw [← hstep]
    have : φ - 2 * Real.pi = φ - (j : ℝ) * (2 * Real.pi / ((4 * nEA r : ℕ) : ℝ)) := by rw [hjN, e]
    rw [this]; exact hdj

/-- a cos θ value `k/D` other than ±1 is farther from the poles than the `np.isclose` windows (`r ≥ 0.002°`) -/
theorem arccos_off_pole {r : ℝ} (hr : 1 / 500 ≤ r) {x : ℝ} (hx1 : -1 + 1 / (nEA r : ℝ) ≤ x) (hx2 : x ≤ 1 - 1 / (nEA r : ℝ)) :
    1 / 10 ^ 8 + 1 / 10 ^ 5 * Real.pi < Real.arccos x ∧ Real.arccos x < Real.pi - (1 / 10 ^ 8 + 1 / 10 ^ 5 * Real.pi) := by
  have hr0 : 0 < r := by linarith
  have hD : (0 : ℝ) < (nEA r : ℝ) := by exact_mod_cast nEA_pos hr0
  have hDle : ((nEA r : ℕ) : ℝ) < 45001 := by
    rw [nEA_cast hr0]
    have h1 : (⌈90 / r⌉ : ℝ) < 90 / r + 1 := Int.ceil_lt_add_one _
    have h2 : 90 / r ≤ 45000 := by rw [div_le_iff₀ hr0]; linarith
    linarith
  have hpi3 := Real.two_le_pi
  have hpi4 := Real.pi_le_four
  set ε : ℝ := 1 / 10 ^ 8 + 1 / 10 ^ 5 * Real.pi with hε
  have hε0 : 0 < ε := by positivity
  have hε1 : ε < 1 / 10 ^ 4 := by rw [hε]; nlinarith
  have hεpi : ε ≤ Real.pi := by linarith
  have hcosε : 1 - 1 / (nEA r : ℝ) < Real.cos ε := by
    have h1 := Real.one_sub_sq_div_two_le_cos (x := ε)
    have h2 : ε ^ 2 / 2 < 1 / (nEA r : ℝ) := by
      rw [lt_div_iff₀ hD]
      have : ε ^ 2 / 2 < 1 / 10 ^ 8 / 2 := by
        apply div_lt_div_of_pos_right _ (by norm_num)
        calc ε ^ 2 < (1 / 10 ^ 4) ^ 2 := pow_lt_pow_left₀ hε1 hε0.le (by norm_num)
          _ = 1 / 10 ^ 8 := by norm_num
      nlinarith
    linarith
  have hD1 : 1 / (nEA r : ℝ) ≤ 1 := by
    rw [div_le_iff₀ hD]
    have : (1 : ℝ) ≤ (nEA r : ℝ) := by exact_mod_cast nEA_pos hr0
    linarith
  have hxm : -1 ≤ x ∧ x ≤ 1 := ⟨by linarith [div_pos one_pos hD], by linarith [div_pos one_pos hD]⟩
  constructor
  · have hx : x < Real.cos ε := by linarith
    have hlt : Real.arccos (Real.cos ε) < Real.arccos x := Real.arccos_lt_arccos hxm.1 hx (Real.cos_le_one _)
    rwa [Real.arccos_cos hε0.le hεpi] at hlt
  · have hx : Real.cos (Real.pi - ε) < x := by rw [Real.cos_pi_sub]; linarith
    have hlt : Real.arccos x < Real.arccos (Real.cos (Real.pi - ε)) :=
      Real.arccos_lt_arccos (Real.neg_one_le_cos _) hx hxm.2
    rwa [Real.arccos_cos (by linarith) (by linarith)] at hlt

/-- POLE DUPLICATES LOSE NOTHING, any hemisphere -/
theorem ea_kept_node_hemi {r : ℝ} (hr : 1 / 500 ≤ r) (h : Hemisphere) {i j : ℕ} (hi : i ≤ hspan h * nEA r)
    (hj : j < 4 * nEA r) :
    ∃ j', j' < 4 * nEA r ∧ sph (eaPolLineH h r i) (eaAzLine r j') = sph (eaPolLineH h r i) (eaAzLine r j)
      ∧ poleDuplicate (eaAzLine r j', eaPolLineH h r i) = false := by
  have hr0 : 0 < r := by linarith
  have hDpos := nEA_pos hr0
  have hD : (0 : ℝ) < (nEA r : ℝ) := by exact_mod_cast hDpos
  by_cases hd : poleDuplicate (eaAzLine r j, eaPolLineH h r i) = true
  · have hkeep0 : poleDuplicate (eaAzLine r 0, eaPolLineH h r i) = false := by
      rw [Bool.eq_false_iff, Ne, poleDuplicate_real, eaAzLine_zero]
      intro h; exact lt_irrefl _ h.1
    rw [poleDuplicate_real] at hd
    have hpi := Real.pi_pos
    have hpol0 : 0 ≤ eaPolLineH h r i := Real.arccos_nonneg _
    have hpol1 : eaPolLineH h r i ≤ Real.pi := Real.arccos_le_pi _
    refine ⟨0, by omega, ?_, hkeep0⟩
    -- the integer numerator of the cos θ line
    set k : ℤ := htop h * (nEA r : ℤ) - (i : ℤ) with hk
    have hx : eaCosLineH h r i = (k : ℝ) / (nEA r : ℝ) := rfl
    have hkb : -(nEA r : ℤ) ≤ k ∧ k ≤ (nEA r : ℤ) := by
      have hi' : (i : ℤ) ≤ (hspan h : ℤ) * (nEA r : ℤ) := by exact_mod_cast hi
      cases h <;> simp only [htop, hspan, Nat.cast_ofNat, Nat.cast_one] at hk hi' <;> constructor <;> omega
    by_cases hk1 : k = (nEA r : ℤ)
    · have : eaCosLineH h r i = 1 := by rw [hx, hk1]; push_cast; field_simp
      rw [eaPolLineH, this, Real.arccos_one]; exact sph_zero _ _
    by_cases hk2 : k = -(nEA r : ℤ)
    · have : eaCosLineH h r i = -1 := by rw [hx, hk2]; push_cast; field_simp
      rw [eaPolLineH, this, Real.arccos_neg_one]; exact sph_pi _ _
    exfalso
    have hk3 : -(nEA r : ℤ) + 1 ≤ k ∧ k ≤ (nEA r : ℤ) - 1 := by omega
    have hk3r : -((nEA r : ℕ) : ℝ) + 1 ≤ (k : ℝ) ∧ (k : ℝ) ≤ ((nEA r : ℕ) : ℝ) - 1 := by
      constructor
      · exact_mod_cast hk3.1
      · exact_mod_cast hk3.2
    have hoff := arccos_off_pole hr (x := eaCosLineH h r i)
      (by rw [hx, le_div_iff₀ hD]; field_simp; linarith [hk3r.1])
      (by rw [hx, div_le_iff₀ hD]; field_simp; linarith [hk3r.2])
    rcases hd.2 with h0 | hπ
    · rw [sub_zero, abs_of_nonneg hpol0, abs_zero, mul_zero, add_zero] at h0
      have : (0 : ℝ) ≤ 1 / 10 ^ 5 * Real.pi := by positivity
      unfold eaPolLineH at h0
      linarith [hoff.1]
    · rw [abs_sub_comm, abs_of_nonneg (by linarith), abs_of_pos hpi] at hπ
      unfold eaPolLineH at hπ
      linarith [hoff.2]
  · exact ⟨j, hj, rfl, by simpa using hd⟩

end Orix.SamplingLemmas
