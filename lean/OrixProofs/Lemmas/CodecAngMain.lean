import OrixProofs.Lemmas.CodecAngGen
set_option linter.unusedSimpArgs false
set_option linter.unusedVariables false
/-
Assembly of the C14 round trip: one written point read back, the phase-id bookkeeping, the whole file.
-/
namespace Orix.Codec.Ang
open Orix.Codec Orix.Gen.Io

/-- the point the reader builds from a written row, before the `ci == -1` rule -/
def pt0 (r : OutRow) : Pt :=
  { x := r.x, y := r.y, phaseId := r.phase, eu := r.eu, vals := [r.iq, r.ci, r.ds, r.fit] ++ r.extras }

/-- … and after it -/
def finalPt (r : OutRow) : Pt := if r.ci = -100000 then { pt0 r with phaseId := -1 } else pt0 r

theorem applyCi_pt0 (r : OutRow) (extras : List Str) :
    applyCi (stdPropNames ++ extras) angReader.ciName (angReader.ciSentinel * 100000) (pt0 r)
      = some (finalPt r) := by
  simp [applyCi, getCol, pt0, finalPt, stdPropNames, lookupStr, S, angReader]

theorem zipIdxFrom_mem {α} (k : Nat) (l : List α) (j : Nat) (a : α) (h : (j, a) ∈ zipIdxFrom k l) :
    k ≤ j ∧ j < k + l.length ∧ a ∈ l := by
  induction l generalizing k with
  | nil => simp [zipIdxFrom] at h
  | cons b r ih =>
    simp only [zipIdxFrom, List.mem_cons, Prod.mk.injEq] at h
    rcases h with ⟨rfl, rfl⟩ | h
    · simp
    · obtain ⟨h1, h2, h3⟩ := ih (k + 1) h
      simp only [List.length_cons, List.mem_cons]
      exact ⟨by omega, by omega, Or.inr h3⟩

theorem zipIdxFrom_mem_of {α} (k : Nat) (l : List α) (a : α) (h : a ∈ l) :
    ∃ j, (j, a) ∈ zipIdxFrom k l := by
  induction l generalizing k with
  | nil => simp at h
  | cons b r ih =>
    rcases List.mem_cons.1 h with rfl | h
    · exact ⟨k, by simp [zipIdxFrom]⟩
    · obtain ⟨j, hj⟩ := ih (k + 1) h
      exact ⟨j, by simp [zipIdxFrom, hj]⟩

theorem mapM_length {α β} (f : α → Option β) (l : List α) (rs : List β) (h : l.mapM f = some rs) :
    rs.length = l.length := (forall₂_length (mapM_some_forall₂ f l rs h)).symm

theorem outRow_extras_length (o : AngOpts) (m : GridIn) (cols : PropCols) (pl : List PhaseInfo) (j : Nat)
    (p : InPt) (r : OutRow) (h : outRow angWriter o m cols pl j p = some r) :
    r.extras.length = cols.extras.length := by
  unfold outRow at h
  by_cases hi : isIndexed p = true
  · simp only [hi, if_true] at h
    split at h
    · rename_i e a b c d ex he ha hb hc hd hex
      simp only [Option.some.injEq] at h
      subst h
      exact mapM_length _ _ _ hex
    · simp at h
  · have hi' : isIndexed p = false := by simpa using hi
    simp only [hi', Bool.false_eq_true, if_false, Option.some.injEq] at h
    subst h
    simp

theorem mapM_getD {α β} (f : α → Option β) (d : β) (l : List α) (rs : List β) (h : l.mapM f = some rs) :
    l.map (fun a => (f a).getD d) = rs := by
  have := mapM_some_forall₂ f l rs h
  exact (forall₂_map_eq this id (fun a => (f a).getD d) (fun a r _ har => by simp [har])).symm.trans
    (by simp)

/-- one point written by `file_writer` and read back by `file_reader` is the point the specification demands -/
theorem point_roundtrip (o : AngOpts) (m : GridIn) (cols : PropCols) (pl : List PhaseInfo) (j : Nat)
    (p : InPt) (r : OutRow)
    (hout : outRow angWriter o m cols pl j p = some r)
    (hknown : isIndexed p = true → (pl.findIdx? (·.id == p.phaseId)).isSome = true)
    (hci : isIndexed p = true → specVal m o.index p cols.ci ≠ -100000)
    (hgeo : m.oneD = true → j < m.ncols) :
    finalPt r = quantPt o m cols pl j p := by
  have hxy : ((j % wNcols m : Nat) : Int) * wDx angWriter m = ((j % m.ncols : Nat) : Int) * m.dx ∧
      ((j / wNcols m : Nat) : Int) * wDy angWriter m
        = (if m.oneD = true then (if m.dx = 0 then (j : Int) * m.dy else 0)
           else ((j / m.ncols : Nat) : Int) * m.dy) := by
    by_cases h1 : m.oneD = true
    · have hj := hgeo h1
      by_cases hc : m.dx = 0 ∧ m.dy ≠ 0
      · have hcol : isColumn m = true := by simp [isColumn, h1, hc.1, hc.2]
        simp [wNcols, wDx, wDy, h1, hcol, hc.1, Nat.mod_one]
      · have hcol : isColumn m = false := by
          simp only [isColumn, h1, Bool.true_and, Bool.and_eq_false_iff, beq_eq_false_iff_ne, ne_eq,
            bne_eq_false_iff_eq]
          by_cases hdx : m.dx = 0
          · right
            by_contra hdy
            exact hc ⟨hdx, hdy⟩
          · left; exact hdx
        have hdiv : j / m.ncols = 0 := Nat.div_eq_of_lt hj
        by_cases hdx : m.dx = 0
        · have hdy : m.dy = 0 := by
            by_contra hdy
            exact hc ⟨hdx, hdy⟩
          simp [wNcols, wDx, wDy, h1, hcol, hdiv, hdx, hdy]
        · simp [wNcols, wDx, wDy, h1, hcol, hdiv, hdx]
    · have hcol : isColumn m = false := by simp [isColumn, h1]
      simp [wNcols, wDx, wDy, h1, hcol]
  obtain ⟨hx', hy⟩ := hxy
  unfold outRow at hout
  unfold quantPt
  by_cases hi : isIndexed p = true
  · simp only [hi, if_true] at hout ⊢
    split at hout
    · rename_i e a b c d ex he ha hb hc hd hex
      simp only [Option.some.injEq] at hout
      subst hout
      have hcib : b ≠ -100000 := by
        have := hci hi
        simpa [specVal, hb] using this
      have hin : p.inData = true := by
        simp only [isIndexed, Bool.and_eq_true] at hi
        exact hi.1
      have hph : newPhaseId pl p
          = (match pl.findIdx? (·.id == p.phaseId) with | some i => (i : Int) + 1 | none => -1) := by
        have hk := hknown hi
        cases hf : pl.findIdx? (·.id == p.phaseId) with
        | none => simp [hf] at hk
        | some i => simp [newPhaseId, hin, hf]
      have hx : cols.extras.map (specVal m o.index p) = ex := mapM_getD (colVal m o.index p) 0 _ _ hex
      simp only [finalPt, pt0, hcib, if_false, hx', hy, hph, he, Option.getD_some, specVal, ha, hb, hc, hd]
      rw [← hx]; rfl
    · simp at hout
  · have hi' : isIndexed p = false := by simpa using hi
    simp only [hi', Bool.false_eq_true, if_false, Option.some.injEq] at hout ⊢
    subst hout
    simp only [finalPt, pt0, hx', hy]
    simp [angWriter, specEulerSentinel, specSentinels, specScale]

/-! ### well-formedness and the whole file -/

/-- Explicit (decidable, quantifiers range over the finite lists of the record) well-formedness of a map and
writer options for the C14 round trip.  Each conjunct is exercised against the implementation at a point
it excludes (harness strata `known/…`, see the evidence). -/
structure AngWF (o : AngOpts) (m : GridIn) : Prop where
  /-- phase names are non-empty and whitespace-normalised (words separated by single spaces): the header
  fields are split at whitespace and re-joined -/
  names_normal : ∀ p ∈ phasesNoNI m.phases, p.name ≠ [] ∧ joinSp (splitWs p.name) = p.name
  /-- point groups are groups the library knows -/
  pg_known : ∀ p ∈ phasesNoNI m.phases, ∀ g, p.pg = some g → g ∈ properSubgroup.map (·.1)
  /-- extra property names survive `lstrip(" ").replace(" ", "_")` -/
  extras_plain : ∀ e ∈ o.extra.getD [], (Str.lstripSp e).spaceToUnderscore = e
  /-- … are not called like a standard column or a reader key -/
  extras_fresh : ∀ e ∈ o.extra.getD [], e ∉ baseNames ∧ e ∉ angReader.dataKeys
  extras_nodup : (o.extra.getD []).Nodup
  /-- a 1-D map has `ncols` points (`nrows`, `ncols` describe the map as CrystalMap reports it) -/
  geometry : m.oneD = true → m.pts.length ≤ m.ncols
  /-- the confidence-index column of an indexed point is not the not-indexed marker -1 -/
  ci_free : ∀ cols, resolveProps angWriter o m = some cols →
    ∀ p ∈ m.pts, isIndexed p = true → specVal m o.index p cols.ci ≠ -100000
  /-- every indexed point's phase is in the phase list … -/
  phases_known : ∀ p ∈ m.pts, isIndexed p = true →
    ((phasesNoNI m.phases).findIdx? (·.id == p.phaseId)).isSome = true
  /-- … and every phase of the list has an indexed point in the written data -/
  phases_used : ∀ i, i < (phasesNoNI m.phases).length →
    ∃ p ∈ m.pts, isIndexed p = true ∧ (phasesNoNI m.phases).findIdx? (·.id == p.phaseId) = some i

theorem quantPt_phaseId (o : AngOpts) (m : GridIn) (cols : PropCols) (pl : List PhaseInfo) (j : Nat) (p : InPt) :
    (quantPt o m cols pl j p).phaseId
      = if isIndexed p = true then
          (match pl.findIdx? (·.id == p.phaseId) with | some i => (i : Int) + 1 | none => -1)
        else -1 := by
  unfold quantPt
  by_cases hi : isIndexed p = true
  · simp only [hi, if_true]
    cases List.findIdx? (fun x => x.id == p.phaseId) pl <;> rfl
  · simp [hi]

theorem resolveProps_extras_length (o : AngOpts) (m : GridIn) (cols : PropCols)
    (h : resolveProps angWriter o m = some cols) : cols.extras.length = (o.extra.getD []).length := by
  unfold resolveProps at h
  split at h
  · rename_i a b c d ex ha hb hc hd hex
    simp only [Option.some.injEq] at h
    subst h
    exact mapM_length _ _ _ hex
  · simp at h

/-- the phase ids that come back are exactly: `-1` iff some point is not indexed, and `1 … n` -/
theorem ids_mem (o : AngOpts) (m : GridIn) (cols : PropCols) (hwf : AngWF o m) (a : Int) :
    a ∈ ((zipIdxFrom 0 m.pts).map fun jp => quantPt o m cols (phasesNoNI m.phases) jp.1 jp.2).map (·.phaseId)
      ↔ (a = -1 ∧ (!(m.pts.all isIndexed)) = true)
        ∨ a ∈ (quantPhases properSubgroup 1 (phasesNoNI m.phases)).map (·.id) := by
  rw [quantPhases_mem_id]
  simp only [List.map_map, List.mem_map, Function.comp, quantPt_phaseId]
  constructor
  · rintro ⟨⟨j, p⟩, hjp, rfl⟩
    obtain ⟨_, _, hp⟩ := zipIdxFrom_mem 0 m.pts j p hjp
    by_cases hi : isIndexed p = true
    · have hk := hwf.phases_known p hp hi
      cases hf : (phasesNoNI m.phases).findIdx? (·.id == p.phaseId) with
      | none => simp [hf] at hk
      | some i =>
        right
        obtain ⟨hlt, _⟩ := List.findIdx?_eq_some_iff_getElem.1 hf
        exact ⟨i, hlt, by simp [hi, hf]; ring⟩
    · left
      refine ⟨by simp [hi], ?_⟩
      simp only [Bool.not_eq_true', List.all_eq_false]
      exact ⟨p, hp, hi⟩
  · rintro (⟨rfl, hni⟩ | ⟨i, hi, rfl⟩)
    · simp only [Bool.not_eq_true', List.all_eq_false] at hni
      obtain ⟨p, hp, hpi⟩ := hni
      obtain ⟨j, hj⟩ := zipIdxFrom_mem_of 0 m.pts p hp
      exact ⟨(j, p), hj, by simp [hpi]⟩
    · obtain ⟨p, hp, hpi, hf⟩ := hwf.phases_used i hi
      obtain ⟨j, hj⟩ := zipIdxFrom_mem_of 0 m.pts p hp
      exact ⟨(j, p), hj, by simp [hpi, hf]; ring⟩

theorem rowOf_length (r : OutRow) : (rowOf angWriter r).length = 10 + r.extras.length := by
  rw [rowOf_eq]; simp; omega

/-- **C14, whole file**: what the reader makes of the file the writer produced is the specified map. -/
theorem roundtrip_main (o : AngOpts) (m : GridIn) (f : AngFile) (hwf : AngWF o m)
    (hw : writeAng angWriter o m = some f) :
    ∃ cols, resolveProps angWriter o m = some cols ∧
      readAng angReader 100000 f = some (false, quantise properSubgroup o m cols) := by
  have hpg : ∀ p ∈ phasesNoNI m.phases, symOk p.pg = true :=
    fun p hp => symOk_of_known _ (hwf.pg_known p hp)
  obtain ⟨bs, hb1, hb2, hb3, hb4⟩ := phaseBlocks_spec 1 (phasesNoNI m.phases) hwf.names_normal hpg
  unfold writeAng at hw
  simp only [hb1] at hw
  cases hc : resolveProps angWriter o m with
  | none => simp [hc] at hw
  | some cols =>
    refine ⟨cols, rfl, ?_⟩
    simp only [hc] at hw
    cases hr : (zipIdxFrom 0 m.pts).mapM
        (fun jp => outRow angWriter o m cols (phasesNoNI m.phases) jp.1 jp.2) with
    | none => simp [hr] at hw
    | some rows =>
      simp only [hr, Option.some.injEq] at hw
      subst hw
      -- abbreviations
      have hF := mapM_some_forall₂ _ _ _ hr
      have hcl := resolveProps_extras_length o m cols hc
      have hlen : ∀ r ∈ rows, r.extras.length = (o.extra.getD []).length := by
        intro r hr'
        obtain ⟨jp, _, hjp⟩ := forall₂_mem_right hF hr'
        rw [outRow_extras_length o m cols _ jp.1 jp.2 r hjp, hcl]
      -- header: phases
      have hflat : (bs.map Blk.lines).reverse.flatten = bs.reverse.flatMap Blk.lines := by
        rw [List.flatMap_def, List.map_reverse]
      have hph : ∀ post, (∀ x ∈ post, neutral x = true) →
          headerPhases angReader
            ([HLine.other, .other, .other, .other, .other, .other] ++ (bs.map Blk.lines).reverse.flatten ++ post)
          = some (quantPhases properSubgroup 1 (phasesNoNI m.phases)) := by
        intro post hpost
        rw [hflat, headerPhases_blocks angReader _ post bs.reverse (by simp [neutral]) hpost
          (fun b hb => hb3 b (List.mem_reverse.1 hb)) (fun b hb => hb4 b (List.mem_reverse.1 hb))]
        rw [List.map_reverse, hb2, sortById_reverse _ (quantPhases_pairwise _ _ _)]
      -- header: vendor and columns
      have hblk : ∀ x ∈ (bs.map Blk.lines).reverse.flatten, isMark x = false ∧ isColNames x = false := by
        intro x hx
        rw [hflat] at hx
        obtain ⟨b, _, hxb⟩ := List.mem_flatMap.1 hx
        simp only [Blk.lines, List.mem_cons, List.not_mem_nil, or_false] at hxb
        rcases hxb with rfl | rfl | rfl | rfl | rfl | rfl | rfl <;> exact ⟨rfl, rfl⟩
      have hvc : vendorColumns angReader
            (([HLine.other, .other, .other, .other, .other, .other] ++ (bs.map Blk.lines).reverse.flatten
              ++ [.other, .grid (S "XSTEP") m.dx, .grid (S "YSTEP") m.dy, .grid (S "NCOLS_ODD") (wNcols m),
                  .grid (S "NCOLS_EVEN") (wNcols m), .grid (S "NROWS") (wNrows m), .other, .other, .other, .other,
                  .other, .other, .other])
              ++ .columnNames (angWriter.columnHeader ++ (o.extra.getD [])) :: [.other])
            (10 + (o.extra.getD []).length)
          = some (.orix, baseNames ++ (o.extra.getD []), false) := by
        apply vendorColumns_orix
        · intro x hx
          rcases List.mem_append.1 hx with hx | hx
          · rcases List.mem_append.1 hx with hx | hx
            · simp only [List.mem_cons, List.not_mem_nil, or_false, or_self] at hx
              subst hx; exact ⟨rfl, rfl⟩
            · exact hblk x hx
          · simp only [List.mem_cons, List.not_mem_nil, or_false] at hx
            rcases hx with rfl | rfl | rfl | rfl | rfl | rfl | rfl | rfl | rfl | rfl | rfl | rfl | rfl <;>
              exact ⟨rfl, rfl⟩
        · intro x hx
          simp only [List.mem_cons, List.not_mem_nil, or_false] at hx
          subst hx; rfl
        · exact hwf.extras_plain
      -- property names
      have hfilter : ((baseNames ++ (o.extra.getD [])).filter fun n => !angReader.dataKeys.contains n)
          = stdPropNames ++ (o.extra.getD []) := by
        rw [List.filter_append, std_filter]
        congr 1
        exact List.filter_eq_self.2 (fun e he => by simp [(hwf.extras_fresh e he).2])
      have hnodup : (baseNames ++ (o.extra.getD [])).Nodup := by
        refine List.nodup_append.2 ⟨base_nodup, hwf.extras_nodup, ?_⟩
        intro a ha b hb hab
        subst hab
        exact (hwf.extras_fresh a hb).1 ha
      -- rows
      have hrows : (rows.map (rowOf angWriter)).mapM
          (rowToPt (baseNames ++ (o.extra.getD [])) (stdPropNames ++ (o.extra.getD [])))
          = some (rows.map pt0) :=
        mapM_map_eq_some rows _ _ pt0 (fun r hr' =>
          rowToPt_rowOf r _ (hlen r hr').symm hwf.extras_nodup (fun e he => (hwf.extras_fresh e he).1))
      have hci : (rows.map pt0).mapM
          (applyCi (stdPropNames ++ (o.extra.getD [])) angReader.ciName (angReader.ciSentinel * 100000))
          = some (rows.map finalPt) :=
        mapM_map_eq_some rows _ _ finalPt (fun r _ => applyCi_pt0 r _)
      have hpts : rows.map finalPt
          = (zipIdxFrom 0 m.pts).map fun jp => quantPt o m cols (phasesNoNI m.phases) jp.1 jp.2 :=
        forall₂_map_eq hF finalPt _ (fun jp r hjp hout => by
          obtain ⟨_, hj, hp⟩ := zipIdxFrom_mem 0 m.pts jp.1 jp.2 hjp
          exact point_roundtrip o m cols _ jp.1 jp.2 r hout (hwf.phases_known _ hp)
            (hwf.ci_free cols hc _ hp)
            (fun h1 => by have := hwf.geometry h1; omega))
      have hrec : reconcile ((rows.map finalPt).map (·.phaseId))
            (quantPhases properSubgroup 1 (phasesNoNI m.phases))
          = some (if (!(m.pts.all isIndexed)) = true
              then notIndexedPhase :: quantPhases properSubgroup 1 (phasesNoNI m.phases)
              else quantPhases properSubgroup 1 (phasesNoNI m.phases)) := by
        rw [hpts]
        exact reconcile_consistent _ _ _ (quantPhases_pairwise _ _ _) (quantPhases_pos _ _)
          (ids_mem o m cols hwf)
      have hall : (rows.map (rowOf angWriter)).all (fun r => r.length == 10 + (o.extra.getD []).length)
          = true := by
        simp only [List.all_map, List.all_eq_true, Function.comp, beq_iff_eq]
        intro r hr'
        rw [rowOf_length, hlen r hr']
      -- assemble
      have hh := hph [.other, .grid (S "XSTEP") m.dx, .grid (S "YSTEP") m.dy, .grid (S "NCOLS_ODD") (wNcols m),
            .grid (S "NCOLS_EVEN") (wNcols m), .grid (S "NROWS") (wNrows m), .other, .other, .other, .other,
            .other, .other, .other, .columnNames (angWriter.columnHeader ++ (o.extra.getD [])), .other]
          (by intro x hx
              simp only [List.mem_cons, List.not_mem_nil, or_false] at hx
              rcases hx with rfl | rfl | rfl | rfl | rfl | rfl | rfl | rfl | rfl | rfl | rfl | rfl | rfl | rfl | rfl <;>
                rfl)
      have hvc' := hvc
      simp only [List.append_assoc, List.cons_append, List.nil_append] at hh hvc'
      unfold readAng
      simp only [List.append_assoc, List.cons_append, List.nil_append, hh, hvc']
      have hcond : (baseNames ++ (o.extra.getD [])).length ≤ 10 + (o.extra.getD []).length ∧
          (baseNames ++ (o.extra.getD [])).Nodup ∧
          (rows.map (rowOf angWriter)).all (fun r => r.length == 10 + (o.extra.getD []).length) = true :=
        ⟨by simp [baseNames]; omega, hnodup, hall⟩
      simp only [hcond, not_true_eq_false, and_self, if_false, hfilter, hrows, ni_vendor, if_true, hci, hrec]
      simp only [quantise]
      congr 2
      cases hai : m.pts.all isIndexed <;> simp [hai, hpts] <;> decide

end Orix.Codec.Ang
