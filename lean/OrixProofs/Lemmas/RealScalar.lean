import Mathlib.Analysis.SpecialFunctions.Trigonometric.Inverse
import Mathlib.Analysis.SpecialFunctions.Trigonometric.Arctan
import Mathlib.Analysis.SpecialFunctions.Complex.Arg
import Mathlib.Analysis.SpecialFunctions.Pow.Real
import Mathlib.Analysis.SpecialFunctions.Sqrt
import OrixModel.Scalar
/-
The reals as a `Scalar`: what every theorem in `OrixProofs` is about.
`atan2 y x` is `Complex.arg (x + i y)` (range (-π, π], `atan2 0 0 = 0`, as numpy's).
`fmod x y = x - ⌊x/y⌋·y` as `np.mod`.
-/
namespace Orix
open Classical in
noncomputable instance instScalarReal : Scalar ℝ where
  lit n := (n : ℝ)
  dec m e := (m : ℝ) / (10 : ℝ) ^ e
  lt x y := decide (x < y)
  le x y := decide (x ≤ y)
  beq x y := decide (x = y)
  sqrt := Real.sqrt
  cos := Real.cos
  sin := Real.sin
  tan := Real.tan
  acos := Real.arccos
  atan := Real.arctan
  atan2 y x := Complex.arg ⟨x, y⟩
  cbrt x := x ^ ((1 : ℝ) / 3)
  abs x := |x|
  pi := Real.pi
  fmod x y := x - (⌊x / y⌋ : ℝ) * y

@[simp] theorem lit_real (n : Nat) : (Scalar.lit n : ℝ) = (n : ℝ) := rfl
@[simp] theorem sqrt_real (x : ℝ) : Scalar.sqrt x = Real.sqrt x := rfl
@[simp] theorem cos_real (x : ℝ) : Scalar.cos x = Real.cos x := rfl
@[simp] theorem sin_real (x : ℝ) : Scalar.sin x = Real.sin x := rfl
@[simp] theorem tan_real (x : ℝ) : Scalar.tan x = Real.tan x := rfl
@[simp] theorem acos_real (x : ℝ) : Scalar.acos x = Real.arccos x := rfl
@[simp] theorem atan_real (x : ℝ) : Scalar.atan x = Real.arctan x := rfl
@[simp] theorem abs_real (x : ℝ) : Scalar.abs x = |x| := rfl
@[simp] theorem pi_real : (Scalar.pi : ℝ) = Real.pi := rfl
@[simp] theorem lt_real (x y : ℝ) : Scalar.lt x y = true ↔ x < y := by
  show decide (x < y) = true ↔ _; simp
@[simp] theorem le_real (x y : ℝ) : Scalar.le x y = true ↔ x ≤ y := by
  show decide (x ≤ y) = true ↔ _; simp
@[simp] theorem beq_real (x y : ℝ) : Scalar.beq x y = true ↔ x = y := by
  show decide (x = y) = true ↔ _; simp
theorem dec_real (m e : Nat) : (Scalar.dec m e : ℝ) = (m : ℝ) / (10 : ℝ) ^ e := rfl
theorem atan2_real (y x : ℝ) : Scalar.atan2 y x = Complex.arg ⟨x, y⟩ := rfl
theorem fmod_real (x y : ℝ) : Scalar.fmod x y = x - (⌊x / y⌋ : ℝ) * y := rfl
end Orix
