import Mathlib.Data.List.Sort
import Mathlib.Data.List.Range
import Mathlib.Tactic.Linarith
import Mathlib.Tactic.Ring
import OrixModel.XMap
/-
Helper lemmas for C11: minima/maxima and extents, `mapM` in `Except`, scatter through `self.id`,
the phase-name loops, and the three branches of `__getitem__` against the set-semantics spec.
-/
namespace Orix.XMap
open Orix

/-! ### `array[mask]` -/

theorem filterMap_ite {β : Type} (l : List Nat) (m : Mask) (f : Nat → β) :
    l.filterMap (fun p => if m p then some (f p) else none) = (l.filter m).map f := by
  induction l with
  | nil => rfl
  | cons a l ih =>
    by_cases h : m a <;> simp [h, ih]

theorem maskFilter_eq {β : Type} (n : Nat) (m : Mask) (f : Nat → β) :
    maskFilter n m f = (ids n m).map f := filterMap_ite _ _ _

theorem mem_ids {n : Nat} {m : Mask} {p : Nat} : p ∈ ids n m ↔ p < n ∧ m p = true := by
  simp [ids, List.mem_filter, List.mem_range]

theorem ids_pairwise (n : Nat) (m : Mask) : (ids n m).Pairwise (· < ·) :=
  List.Pairwise.filter _ List.pairwise_lt_range

theorem ids_nodup (n : Nat) (m : Mask) : (ids n m).Nodup :=
  (ids_pairwise n m).imp (fun h => Nat.ne_of_lt h)

/-! ### minimum / maximum of a list -/

theorem foldl_min_le (xs : List Nat) (x : Nat) :
    xs.foldl min x ≤ x ∧ ∀ y ∈ xs, xs.foldl min x ≤ y := by
  induction xs generalizing x with
  | nil => simp
  | cons a xs ih =>
    simp only [List.foldl_cons, List.mem_cons, forall_eq_or_imp]
    obtain ⟨h1, h2⟩ := ih (min x a)
    exact ⟨le_trans h1 (min_le_left _ _), le_trans h1 (min_le_right _ _), h2⟩

theorem foldl_min_mem (xs : List Nat) (x : Nat) : xs.foldl min x ∈ x :: xs := by
  induction xs generalizing x with
  | nil => simp
  | cons a xs ih =>
    simp only [List.foldl_cons]
    have := ih (min x a)
    rcases List.mem_cons.1 this with h | h
    · rcases min_choice x a with hc | hc
      · rw [h, hc]; simp
      · rw [h, hc]; simp
    · exact List.mem_cons_of_mem _ (List.mem_cons_of_mem _ h)

theorem foldl_max_le (xs : List Nat) (x : Nat) :
    x ≤ xs.foldl max x ∧ ∀ y ∈ xs, y ≤ xs.foldl max x := by
  induction xs generalizing x with
  | nil => simp
  | cons a xs ih =>
    simp only [List.foldl_cons, List.mem_cons, forall_eq_or_imp]
    obtain ⟨h1, h2⟩ := ih (max x a)
    exact ⟨le_trans (le_max_left _ _) h1, le_trans (le_max_right _ _) h1, h2⟩

theorem foldl_max_mem (xs : List Nat) (x : Nat) : xs.foldl max x ∈ x :: xs := by
  induction xs generalizing x with
  | nil => simp
  | cons a xs ih =>
    simp only [List.foldl_cons]
    have := ih (max x a)
    rcases List.mem_cons.1 this with h | h
    · rcases max_choice x a with hc | hc
      · rw [h, hc]; simp
      · rw [h, hc]; simp
    · exact List.mem_cons_of_mem _ (List.mem_cons_of_mem _ h)

theorem minOf_eq_none {l : List Nat} : minOf l = none ↔ l = [] := by
  cases l <;> simp [minOf]

theorem maxOf_eq_none {l : List Nat} : maxOf l = none ↔ l = [] := by
  cases l <;> simp [maxOf]

theorem minOf_spec {l : List Nat} {a : Nat} (h : minOf l = some a) :
    a ∈ l ∧ ∀ y ∈ l, a ≤ y := by
  cases l with
  | nil => simp [minOf] at h
  | cons x xs =>
    simp only [minOf, Option.some.injEq] at h
    subst h
    refine ⟨foldl_min_mem xs x, ?_⟩
    intro y hy
    rcases List.mem_cons.1 hy with rfl | hy
    · exact (foldl_min_le xs y).1
    · exact (foldl_min_le xs x).2 y hy

theorem maxOf_spec {l : List Nat} {a : Nat} (h : maxOf l = some a) :
    a ∈ l ∧ ∀ y ∈ l, y ≤ a := by
  cases l with
  | nil => simp [maxOf] at h
  | cons x xs =>
    simp only [maxOf, Option.some.injEq] at h
    subst h
    refine ⟨foldl_max_mem xs x, ?_⟩
    intro y hy
    rcases List.mem_cons.1 hy with rfl | hy
    · exact (foldl_max_le xs y).1
    · exact (foldl_max_le xs x).2 y hy

/-! ### extents are bounding boxes -/

theorem extent_ok {a : Axis} {I : List Nat} {lo hi : Nat} (h : extent a I = .ok (lo, hi)) :
    (∀ p ∈ I, lo ≤ a.coord p ∧ a.coord p < hi) ∧ (∃ p ∈ I, a.coord p = lo) ∧
      (∃ p ∈ I, a.coord p + 1 = hi) := by
  unfold extent at h
  cases hmin : minOf (I.map a.coord) with
  | none => simp [hmin] at h
  | some mn =>
    cases hmax : maxOf (I.map a.coord) with
    | none => simp [hmin, hmax] at h
    | some mx =>
      simp only [hmin, hmax, Except.ok.injEq, Prod.mk.injEq] at h
      obtain ⟨rfl, rfl⟩ := h
      obtain ⟨hm1, hm2⟩ := minOf_spec hmin
      obtain ⟨hx1, hx2⟩ := maxOf_spec hmax
      refine ⟨?_, ?_, ?_⟩
      · intro p hp
        have hc : a.coord p ∈ I.map a.coord := List.mem_map_of_mem hp
        exact ⟨hm2 _ hc, Nat.lt_succ_of_le (hx2 _ hc)⟩
      · obtain ⟨p, hp, he⟩ := List.mem_map.1 hm1
        exact ⟨p, hp, he⟩
      · obtain ⟨p, hp, he⟩ := List.mem_map.1 hx1
        exact ⟨p, hp, by rw [he]⟩

theorem extent_error {a : Axis} {I : List Nat} {e : XErr} (h : extent a I = .error e) :
    I = [] ∧ e = .emptyReduction := by
  unfold extent at h
  cases hmin : minOf (I.map a.coord) with
  | none =>
    have : I.map a.coord = [] := minOf_eq_none.1 hmin
    simp only [hmin] at h
    refine ⟨List.map_eq_nil_iff.1 this, ?_⟩
    cases hmax : maxOf (I.map a.coord) <;> simp at h <;> exact h.symm
  | some mn =>
    cases hmax : maxOf (I.map a.coord) with
    | none =>
      have : I.map a.coord = [] := maxOf_eq_none.1 hmax
      rw [this] at hmin; simp [minOf] at hmin
    | some mx => simp [hmin, hmax] at h

theorem extent_isOk_of_ne_nil {a : Axis} {I : List Nat} (h : I ≠ []) : ∃ r, extent a I = .ok r := by
  cases hr : extent a I with
  | ok r => exact ⟨r, rfl⟩
  | error e => exact absurd (extent_error hr).1 h

/-! ### `mapM` in `Except` -/

theorem mapM_ok {α β : Type} {f : α → Except XErr β} :
    ∀ {l : List α} {r : List β}, l.mapM f = .ok r → List.Forall₂ (fun a b => f a = .ok b) l r := by
  intro l
  induction l with
  | nil => intro r h; simp [List.mapM_nil, pure, Except.pure] at h; subst h; exact .nil
  | cons a l ih =>
    intro r h
    rw [List.mapM_cons] at h
    cases hfa : f a with
    | error e => simp [hfa, bind, Except.bind] at h
    | ok b =>
      cases hl : l.mapM f with
      | error e => simp [hfa, hl, bind, Except.bind] at h
      | ok bs =>
        simp [hfa, hl, bind, Except.bind, pure, Except.pure] at h
        subst h
        exact .cons hfa (ih hl)

theorem mapM_ok_of_forall₂ {α β : Type} {f : α → Except XErr β} :
    ∀ {l : List α} {r : List β}, List.Forall₂ (fun a b => f a = .ok b) l r → l.mapM f = .ok r := by
  intro l r h
  induction h with
  | nil => rfl
  | cons hab _ ih => rw [List.mapM_cons, hab, ih]; rfl


/-! ### slice / int / tuple keys -/

theorem inBox_of_forall₂ {I : List Nat} {p : Nat} (hp : p ∈ I) :
    ∀ {axes : List Axis} {ext : List (Nat × Nat)},
      List.Forall₂ (fun a e => extent a I = .ok e) axes ext →
      ∀ picks : List (List Nat), inBox (axes.zip (ext.zip picks)) p = true := by
  intro axes ext h
  induction h with
  | nil => intro picks; simp [inBox]
  | @cons a e axes ext hae _ ih =>
    intro picks
    cases picks with
    | nil => simp [inBox]
    | cons pk picks =>
      obtain ⟨lo, hi⟩ := e
      have hb := (extent_ok hae).1 p hp
      have := ih picks
      simp only [inBox, List.zip_cons_cons, List.all_cons, Bool.and_eq_true, decide_eq_true_eq] at this ⊢
      exact ⟨⟨hb.1, hb.2⟩, this⟩

theorem inBox_of_mem {g : Grid} {I : List Nat} {ext : List (Nat × Nat)} (h : dataSlices g I = .ok ext)
    (picks : List (List Nat)) {p : Nat} (hp : p ∈ I) : inBox (g.axes.zip (ext.zip picks)) p = true :=
  inBox_of_forall₂ hp (mapM_ok h) picks

theorem ids_box_and (n : Nat) (m : Mask) (box q : Nat → Bool) (hbox : ∀ p ∈ ids n m, box p = true) :
    ids n (fun p => if box p then m p && q p else m p) = (ids n m).filter q := by
  unfold ids
  rw [List.filter_filter]
  apply List.filter_congr
  intro p hp
  by_cases hm : m p = true
  · have : box p = true := hbox p (by simp [ids, List.mem_filter, hm, List.mem_range.1 hp] )
    simp [this, hm, Bool.and_comm]
  · have hm' : m p = false := by simpa using hm
    simp [hm']

theorem getIdx_refines (b : Base) (m : Mask) (ks : List Ix) :
    (getIdx b.grid m ks).map (ids b.grid.size) = specSelect b (ids b.grid.size m) (.idx ks) := by
  cases hds : dataSlices b.grid (ids b.grid.size m) with
  | error e => simp only [getIdx, getIdxWith, specSelect, hds, Except.map]
  | ok ext =>
    cases hpk : pickAll ks ext with
    | error e => simp only [getIdx, getIdxWith, specSelect, hds, hpk, Except.map]
    | ok picks =>
      simp only [getIdx, getIdxWith, specSelect, hds, hpk, Except.map]
      congr 1
      exact ids_box_and _ m _ _ (fun p hp => inBox_of_mem hds picks hp)

/-! ### boolean arrays: scatter through `self.id` -/

/-- the ids selected positionally by a list of flags -/
def selPos (I : List Nat) (vals : List Bool) : List Nat := ((I.zip vals).filter (·.2)).map (·.1)

theorem selPos_sublist : ∀ (I : List Nat) (vals : List Bool), (selPos I vals).Sublist I := by
  intro I
  induction I with
  | nil => intro vals; simp [selPos]
  | cons a I ih =>
    intro vals
    cases vals with
    | nil => simp [selPos]
    | cons v vals =>
      have := ih vals
      cases v
      · simpa [selPos, List.filter_cons] using this.cons a
      · simpa [selPos, List.filter_cons] using this.cons_cons a

theorem lookup_zip_of_nodup : ∀ {I : List Nat} {vals : List Bool} {p : Nat} {v : Bool}, I.Nodup →
    ((I.zip vals).lookup p = some v ↔ (p, v) ∈ I.zip vals) := by
  intro I
  induction I with
  | nil => intro vals p v _; simp
  | cons a I ih =>
    intro vals p v hnd
    cases vals with
    | nil => simp
    | cons w vals =>
      rw [List.nodup_cons] at hnd
      simp only [List.zip_cons_cons, List.lookup_cons, List.mem_cons, Prod.mk.injEq]
      by_cases hpa : p = a
      · subst hpa
        simp only [beq_self_eq_true, Option.some.injEq, true_and]
        constructor
        · intro h; exact Or.inl h.symm
        · rintro (h | h)
          · exact h.symm
          · exact absurd (List.of_mem_zip h).1 hnd.1
      · have : (p == a) = false := by simpa using hpa
        simp only [this, hpa, false_and, false_or]
        exact ih hnd.2

theorem mem_selPos {I : List Nat} {vals : List Bool} {p : Nat} :
    p ∈ selPos I vals ↔ (p, true) ∈ I.zip vals := by
  simp only [selPos, List.mem_map, List.mem_filter]
  constructor
  · rintro ⟨⟨a, b⟩, ⟨hm, hb⟩, rfl⟩
    simp only at hb; subst hb; exact hm
  · intro h; exact ⟨(p, true), ⟨h, rfl⟩, rfl⟩

theorem ids_scatter {n : Nat} {I : List Nat} (vals : List Bool) (hs : I.Pairwise (· < ·))
    (hn : ∀ x ∈ I, x < n) : ids n (scatter I vals) = selPos I vals := by
  apply List.Pairwise.eq_of_mem_iff (r := (· < ·)) (ids_pairwise n _) (hs.sublist (selPos_sublist I vals))
  intro p
  have hnd : I.Nodup := hs.imp (fun h => Nat.ne_of_lt h)
  rw [mem_ids, mem_selPos]
  simp only [scatter, beq_iff_eq]
  rw [lookup_zip_of_nodup hnd]
  constructor
  · exact fun h => h.2
  · exact fun h => ⟨hn p (List.of_mem_zip h).1, h⟩

theorem ids_lt {n : Nat} {m : Mask} : ∀ x ∈ ids n m, x < n := fun _ hx => (mem_ids.1 hx).1

theorem selPos_replicate (I : List Nat) (v : Bool) :
    selPos I (List.replicate I.length v) = if v then I else [] := by
  induction I with
  | nil => cases v <;> simp [selPos]
  | cons a I ih =>
    cases v
    · simpa [selPos, List.replicate_succ, List.filter_cons] using ih
    · simpa [selPos, List.replicate_succ, List.filter_cons] using ih

theorem selPos_map (I : List Nat) (f : Nat → Bool) : selPos I (I.map f) = I.filter f := by
  induction I with
  | nil => simp [selPos]
  | cons a I ih =>
    by_cases h : f a = true
    · simpa [selPos, List.filter_cons, h] using ih
    · have h' : f a = false := by simpa using h
      simpa [selPos, List.filter_cons, h'] using ih

theorem getMask_refines (b : Base) (m : Mask) (key : List Bool) :
    (getMask b.grid.size m key).map (ids b.grid.size) = specSelect b (ids b.grid.size m) (.mask key) := by
  unfold getMask specSelect
  by_cases hlen : key.length = (ids b.grid.size m).length
  · simp only [hlen, if_true, Except.map]
    congr 1
    exact ids_scatter key (ids_pairwise _ _) ids_lt
  · simp only [hlen, if_false]
    match key with
    | [v] =>
      simp only [Except.map]
      congr 1
      rw [ids_scatter _ (ids_pairwise _ _) ids_lt, selPos_replicate]
    | [] => rfl
    | _ :: _ :: _ => rfl

/-! ### the phase-name loops -/

theorem zipWith_or_false : ∀ (flags : List Bool) (pids : List Int), flags.length = pids.length →
    List.zipWith (fun f (_ : Int) => f) flags pids = flags := by
  intro flags
  induction flags with
  | nil => intro pids _; simp
  | cons f flags ih =>
    intro pids hl
    cases pids with
    | nil => simp at hl
    | cons q pids =>
      rw [List.zipWith_cons_cons, ih pids (by simpa using hl)]

theorem zipWith_or_or (g h : Int → Bool) : ∀ (flags : List Bool) (pids : List Int),
    List.zipWith (fun f q => f || g q) (List.zipWith (fun f q => f || h q) flags pids) pids
      = List.zipWith (fun f q => f || (h q || g q)) flags pids := by
  intro flags
  induction flags with
  | nil => intro pids; simp
  | cons f flags ih =>
    intro pids
    cases pids with
    | nil => simp
    | cons q pids => simp [ih pids, Bool.or_assoc]

/-- a loop whose every iteration ors a per-point condition into the flags -/
theorem foldl_or_flags {γ : Type} (pids : List Int) (G : γ → Int → Bool)
    (step : List Bool → γ → List Bool)
    (hstep : ∀ fl x, fl.length = pids.length → step fl x = List.zipWith (fun f q => f || G x q) fl pids) :
    ∀ (xs : List γ) (flags : List Bool), flags.length = pids.length →
      xs.foldl step flags = List.zipWith (fun f q => f || xs.any (fun x => G x q)) flags pids := by
  intro xs
  induction xs with
  | nil =>
    intro flags hl
    simp only [List.foldl_nil, List.any_nil, Bool.or_false]
    exact (zipWith_or_false flags pids hl).symm
  | cons x xs ih =>
    intro flags hl
    simp only [List.foldl_cons]
    rw [hstep flags x hl, ih _ (by simp [hl]), zipWith_or_or]
    simp only [List.any_cons]

theorem zipWith_false_map (pids : List Int) (g : Int → Bool) :
    List.zipWith (fun f q => f || g q) (List.replicate pids.length false) pids = pids.map g := by
  induction pids with
  | nil => simp
  | cons q pids ih => simp [List.replicate_succ, ih]

theorem nameFlags_eq (phases : PhaseList) (pids : List Int) (ks : List String) :
    nameFlags phases pids ks = pids.map (nameSel phases ks) := by
  unfold nameFlags
  rw [foldl_or_flags pids
    (fun k q => phases.any fun e => if k == e.2.name then q == e.1 else isIndexedKw k && q != -1)
    _ ?_ ks _ (by simp)]
  · rw [zipWith_false_map]; rfl
  · intro fl k hl
    refine foldl_or_flags pids
      (fun (e : Int × Phase) q => if k == e.2.name then q == e.1 else isIndexedKw k && q != -1) _ ?_ phases fl hl
    intro fl e hl
    by_cases h1 : (k == e.2.name) = true
    · simp only [h1, if_true]
    · have h1' : (k == e.2.name) = false := by simpa using h1
      by_cases h2 : isIndexedKw k = true
      · simp only [h1', h2, Bool.false_eq_true, if_false, if_true, Bool.true_and]
      · have h2' : isIndexedKw k = false := by simpa using h2
        simp only [h1', h2', Bool.false_eq_true, if_false, Bool.false_and, Bool.or_false]
        exact (zipWith_or_false fl pids hl).symm

theorem getNames_refines (b : Base) (m : Mask) (ks : List String) :
    ids b.grid.size (getNames b.grid.size b.phaseId b.phases m ks)
      = (ids b.grid.size m).filter fun p => nameSel b.phases ks (b.phaseId p) := by
  unfold getNames
  rw [ids_scatter _ (ids_pairwise _ _) ids_lt, nameFlags_eq, List.map_map, selPos_map]
  rfl

/-! ### `get_map_data` -/

theorem length_flatMap_range {γ : Type} (H W : Nat) (f : Nat → Nat → γ) :
    ((List.range H).flatMap fun i => (List.range W).map (f i)).length = H * W := by
  induction H with
  | zero => simp
  | succ H ih =>
    rw [List.range_succ, List.flatMap_append, List.length_append, ih]
    simp [Nat.succ_mul]

theorem getElem?_flatMap_range {γ : Type} (H W : Nat) (f : Nat → Nat → γ) {i j : Nat}
    (hi : i < H) (hj : j < W) :
    ((List.range H).flatMap fun i => (List.range W).map (f i))[i * W + j]? = some (f i j) := by
  induction H with
  | zero => omega
  | succ H ih =>
    rw [List.range_succ, List.flatMap_append]
    by_cases hiH : i < H
    · have hlt : i * W + j < H * W := by
        calc i * W + j < i * W + W := by omega
          _ = (i + 1) * W := by ring
          _ ≤ H * W := Nat.mul_le_mul_right _ hiH
      rw [List.getElem?_append_left (by rw [length_flatMap_range]; exact hlt)]
      exact ih hiH
    · have : i = H := by omega
      subst this
      rw [List.getElem?_append_right (by rw [length_flatMap_range]; omega), length_flatMap_range]
      simp [hj]

theorem mapData_spec {β : Type} {g : Grid} {m : Mask} {arr : Nat → β} {out : List (Option β)}
    (h : mapData g m arr = .ok out) :
    ∃ y0 y1 x0 x1, spanY g (ids g.size m) = .ok (y0, y1) ∧ spanX g (ids g.size m) = .ok (x0, x1) ∧
      out.length = (y1 - y0) * (x1 - x0) ∧
      ∀ i j, i < y1 - y0 → j < x1 - x0 →
        out[i * (x1 - x0) + j]? =
          some (if m ((y0 + i) * g.nx + (x0 + j)) then some (arr ((y0 + i) * g.nx + (x0 + j))) else none) := by
  unfold mapData at h
  by_cases hax : g.axes.isEmpty = true
  · simp [hax] at h
  · simp only [hax, Bool.false_eq_true, if_false] at h
    cases hy : spanY g (ids g.size m) with
    | error e => simp [hy] at h
    | ok ry =>
      cases hx : spanX g (ids g.size m) with
      | error e => simp [hy, hx] at h
      | ok rx =>
        simp only [hy, hx, Except.ok.injEq] at h
        obtain ⟨y0, y1⟩ := ry
        obtain ⟨x0, x1⟩ := rx
        refine ⟨y0, y1, x0, x1, rfl, rfl, ?_, ?_⟩
        · rw [← h]; exact length_flatMap_range _ _ _
        · intro i j hi hj
          rw [← h]
          exact getElem?_flatMap_range (y1 - y0) (x1 - x0)
            (fun i j => if m ((y0 + i) * g.nx + (x0 + j)) then some (arr ((y0 + i) * g.nx + (x0 + j))) else none) hi hj

theorem spanY_contains {g : Grid} {I : List Nat} {y0 y1 : Nat} (h : spanY g I = .ok (y0, y1))
    {p : Nat} (hp : p ∈ I) (hpn : p < g.size) : y0 ≤ p / g.nx ∧ p / g.nx < y1 := by
  unfold spanY at h
  by_cases hny : g.ny > 1
  · simp only [hny, if_true] at h
    exact (extent_ok h).1 p hp
  · simp only [hny, if_false, Except.ok.injEq, Prod.mk.injEq] at h
    obtain ⟨rfl, rfl⟩ := h
    have : g.ny ≤ 1 := by omega
    have hlt : p < g.nx := by
      have : g.size ≤ g.nx := by
        unfold Grid.size
        calc g.ny * g.nx ≤ 1 * g.nx := Nat.mul_le_mul_right _ this
          _ = g.nx := by simp
      omega
    simp [Nat.div_eq_of_lt hlt]

theorem spanX_contains {g : Grid} {I : List Nat} {x0 x1 : Nat} (h : spanX g I = .ok (x0, x1))
    {p : Nat} (hp : p ∈ I) (hnx : 1 ≤ g.nx) : x0 ≤ p % g.nx ∧ p % g.nx < x1 := by
  unfold spanX at h
  by_cases hx : g.nx > 1
  · simp only [hx, if_true] at h
    exact (extent_ok h).1 p hp
  · simp only [hx, if_false, Except.ok.injEq, Prod.mk.injEq] at h
    obtain ⟨rfl, rfl⟩ := h
    have : g.nx = 1 := by omega
    simp [this, Nat.mod_one]

/-- every point of the data lands at its (row, col) relative to the bounding box -/
theorem mapData_at_point {β : Type} {g : Grid} {m : Mask} {arr : Nat → β} {out : List (Option β)}
    (h : mapData g m arr = .ok out) (hnx : 1 ≤ g.nx) {p : Nat} (hp : p ∈ ids g.size m) :
    ∃ y0 y1 x0 x1, spanY g (ids g.size m) = .ok (y0, y1) ∧ spanX g (ids g.size m) = .ok (x0, x1) ∧
      out[(p / g.nx - y0) * (x1 - x0) + (p % g.nx - x0)]? = some (some (arr p)) := by
  obtain ⟨y0, y1, x0, x1, hy, hx, _, hget⟩ := mapData_spec h
  refine ⟨y0, y1, x0, x1, hy, hx, ?_⟩
  have hpn := (mem_ids.1 hp).1
  have hm := (mem_ids.1 hp).2
  obtain ⟨hy0, hy1⟩ := spanY_contains hy hp hpn
  obtain ⟨hx0, hx1⟩ := spanX_contains hx hp hnx
  have := hget (p / g.nx - y0) (p % g.nx - x0) (by omega) (by omega)
  rw [this]
  have e1 : y0 + (p / g.nx - y0) = p / g.nx := by omega
  have e2 : x0 + (p % g.nx - x0) = p % g.nx := by omega
  rw [e1, e2, Nat.div_add_mod']
  simp [hm]

end Orix.XMap
