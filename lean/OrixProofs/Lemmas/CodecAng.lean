import OrixProofs.Lemmas.CodecRec
import OrixModel.Codec.Ang
/-
Lemmas about the .ang model that do not depend on the generated tables: header parsing of a sequence of
phase blocks, vendor footprint search.
-/
namespace Orix.Codec.Ang
open Orix.Codec

/-- a phase block of the header in its canonical shape -/
structure Blk where
  id : Nat
  name : Str
  sym : Str
  pg : Str
  lat : List Int

def Blk.lines (b : Blk) : List HLine :=
  [.phase b.id, .materialName (splitWs b.name), .formula (splitWs b.name), .other, .symmetry b.sym,
   .lattice b.lat, .other]

def Blk.phase (b : Blk) : PhaseInfo :=
  { id := (b.id : Int), name := b.name, pg := some b.pg, sg := none, lattice := b.lat, atoms := [] }

/-- lines that no header regular expression of the phase parser matches -/
def neutral : HLine → Bool
  | .other => true
  | .grid _ _ => true
  | .columnNames _ => true
  | .mark _ => true
  | _ => false

theorem hdrIds_append (a b : List HLine) : hdrIds (a ++ b) = hdrIds a ++ hdrIds b := by
  simp [hdrIds, List.filterMap_append]
theorem hdrNames_append (a b : List HLine) : hdrNames (a ++ b) = hdrNames a ++ hdrNames b := by
  simp [hdrNames, List.filterMap_append]
theorem hdrFormulas_append (a b : List HLine) : hdrFormulas (a ++ b) = hdrFormulas a ++ hdrFormulas b := by
  simp [hdrFormulas, List.filterMap_append]
theorem hdrSyms_append (a b : List HLine) : hdrSyms (a ++ b) = hdrSyms a ++ hdrSyms b := by
  simp [hdrSyms, List.filterMap_append]
theorem hdrLattices_append (a b : List HLine) : hdrLattices (a ++ b) = hdrLattices a ++ hdrLattices b := by
  simp [hdrLattices, List.filterMap_append]

theorem hdr_neutral (l : List HLine) (h : ∀ x ∈ l, neutral x = true) :
    hdrIds l = [] ∧ hdrNames l = [] ∧ hdrFormulas l = [] ∧ hdrSyms l = [] ∧ hdrLattices l = [] := by
  induction l with
  | nil => simp [hdrIds, hdrNames, hdrFormulas, hdrSyms, hdrLattices]
  | cons x r ih =>
    have hx := h x (by simp)
    obtain ⟨h1, h2, h3, h4, h5⟩ := ih (fun y hy => h y (by simp [hy]))
    cases x <;> simp [neutral] at hx <;>
      simp_all [hdrIds, hdrNames, hdrFormulas, hdrSyms, hdrLattices, List.filterMap_cons]

/-- the name of a block is non-empty and survives splitting at whitespace and re-joining -/
def Blk.nameOK (b : Blk) : Prop := b.name ≠ [] ∧ joinSp (splitWs b.name) = b.name

theorem Blk.toks (b : Blk) (h : b.nameOK) : ∃ t ts, splitWs b.name = t :: ts := by
  cases hs : splitWs b.name with
  | nil =>
    have := h.2
    rw [hs] at this
    exact absurd this.symm h.1
  | cons t ts => exact ⟨t, ts, rfl⟩

theorem hdr_blocks (bs : List Blk) (hn : ∀ b ∈ bs, b.nameOK) :
    hdrIds (bs.flatMap Blk.lines) = bs.map (·.id) ∧
    hdrNames (bs.flatMap Blk.lines) = bs.map (·.name) ∧
    hdrFormulas (bs.flatMap Blk.lines) = bs.map (·.name) ∧
    hdrSyms (bs.flatMap Blk.lines) = bs.map (·.sym) ∧
    hdrLattices (bs.flatMap Blk.lines) = bs.map (·.lat) := by
  induction bs with
  | nil => simp [hdrIds, hdrNames, hdrFormulas, hdrSyms, hdrLattices]
  | cons b r ih =>
    obtain ⟨h1, h2, h3, h4, h5⟩ := ih (fun y hy => hn y (by simp [hy]))
    have hb := hn b (by simp)
    obtain ⟨t, ts, hts⟩ := b.toks hb
    have hj : joinSp (t :: ts) = b.name := by rw [← hts]; exact hb.2
    simp only [List.flatMap_cons, hdrIds_append, hdrNames_append, hdrFormulas_append, hdrSyms_append,
      hdrLattices_append, h1, h2, h3, h4, h5, List.map_cons]
    refine ⟨?_, ?_, ?_, ?_, ?_⟩ <;>
      simp [Blk.lines, hts, hdrIds, hdrNames, hdrFormulas, hdrSyms, hdrLattices, List.filterMap_cons, hj]

theorem phaseIds_self (ids : List Nat) : phaseIds ids ids.length = ids := by
  unfold phaseIds
  cases ids with
  | nil => simp
  | cons a r => simp

theorem zipPhases_blocks (t : ReaderTables) (bs : List Blk)
    (hr : ∀ b ∈ bs, resolvePG t.aliases t.groups b.sym = some b.pg) :
    zipPhases t (bs.map (·.id)) (bs.map (·.name)) (bs.map (·.sym)) (bs.map (·.lat))
      = some (bs.map Blk.phase) := by
  induction bs with
  | nil => simp [zipPhases]
  | cons b r ih =>
    simp [zipPhases, hr b (by simp), ih (fun y hy => hr y (by simp [hy])), Blk.phase]

/-- the header parser on a header made of neutral lines around a sequence of phase blocks -/
theorem headerPhases_blocks (t : ReaderTables) (pre post : List HLine) (bs : List Blk)
    (hpre : ∀ x ∈ pre, neutral x = true) (hpost : ∀ x ∈ post, neutral x = true)
    (hn : ∀ b ∈ bs, b.nameOK)
    (hr : ∀ b ∈ bs, resolvePG t.aliases t.groups b.sym = some b.pg) :
    headerPhases t (pre ++ bs.flatMap Blk.lines ++ post) = some (sortById (bs.map Blk.phase)) := by
  obtain ⟨a1, a2, a3, a4, a5⟩ := hdr_neutral pre hpre
  obtain ⟨c1, c2, c3, c4, c5⟩ := hdr_neutral post hpost
  obtain ⟨b1, b2, b3, b4, b5⟩ := hdr_blocks bs hn
  have hlen : (bs.map (·.name)).length = (bs.map (·.id)).length := by simp
  unfold headerPhases
  simp only [hdrIds_append, hdrNames_append, hdrFormulas_append, hdrSyms_append, hdrLattices_append,
    a1, a2, a3, a4, a5, b1, b2, b3, b4, b5, c1, c2, c3, c4, c5, List.nil_append, List.append_nil,
    ite_self]
  rw [hlen, phaseIds_self, zipPhases_blocks t bs hr]
  rfl

/-! ### vendor footprint -/

def isMark : HLine → Bool
  | .mark _ => true
  | _ => false
def isColNames : HLine → Bool
  | .columnNames _ => true
  | _ => false

theorem findMark_none (t : ReaderTables) (v : Vendor) (h : List HLine)
    (hm : ∀ x ∈ h, isMark x = false) (hc : v = .orix → ∀ x ∈ h, isColNames x = false) :
    findMark t v h = none := by
  induction h with
  | nil => rfl
  | cons x r ih =>
    have hx := hm x (by simp)
    have ih' := ih (fun y hy => hm y (by simp [hy])) (fun hv y hy => hc hv y (by simp [hy]))
    cases x <;> simp [isMark] at hx <;> simp [findMark, ih']
    rename_i names
    intro hv
    have := hc hv (.columnNames names) (by simp)
    simp [isColNames] at this

theorem findMark_orix (t : ReaderTables) (a b : List HLine) (names : List Str)
    (ha : ∀ x ∈ a, isMark x = false ∧ isColNames x = false)
    (hp : listPrefix t.orixFootprintNames names = true) :
    findMark t .orix (a ++ .columnNames names :: b) = some (some names) := by
  induction a with
  | nil => simp [findMark, hp]
  | cons x r ih =>
    have hx := ha x (by simp)
    have ih' := ih (fun y hy => ha y (by simp [hy]))
    cases x <;> simp [isMark, isColNames] at hx <;> simp [findMark, ih']

end Orix.Codec.Ang
