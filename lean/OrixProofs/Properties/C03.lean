import OrixProofs.Lemmas.GroupSound
import OrixProofs.GenAudit.C03Tables
/-
C03 — point groups are the crystallographic groups of their names and space groups.

Entirely finite, decided completely.  The tables `Gen.PG.all` (38 point-group objects: every operation
as an integer matrix in lattice coordinates, Laue group, proper subgroup, subgroup names, query flags) and
`Gen.SG.sgs` (230 space groups: rotational parts from diffpy, point group assigned by orix) are
REGENERATED from the live objects of /repo on every run; `OrixProofs/GenAudit/PG_k.lean` and `C03Tables.lean`
decide the Boolean checkers on them in the kernel (`decide +kernel`), and the theorems below lift those
runs to the declarative statements through the soundness lemmas of `Lemmas/GroupSound.lean`.
-/
namespace Orix.C03
open Orix.Grp Orix.Gen Orix.GenAudit

theorem good_of_mem {r : GroupRec} (hr : r ∈ PG.all) : goodRec r = true :=
  (List.all_eq_true.mp all_good) r hr

theorem checkGroup_of_mem {r : GroupRec} (hr : r ∈ PG.all) : checkGroup r = true := by
  have h := good_of_mem hr
  unfold goodRec at h
  simp only [Bool.and_eq_true] at h
  exact h.1.1

/-- Every point-group object is given in at least one lattice basis … -/
theorem has_basis {r : GroupRec} (hr : r ∈ PG.all) : r.cub.isSome = true ∨ r.hex.isSome = true := by
  have h := checkGroup_of_mem hr
  unfold checkGroup hasBasis at h
  simp only [Bool.and_eq_true, Bool.or_eq_true] at h
  exact h.1.1

/-- … and in every basis in which it is given it is a finite group (identity, closed under composition,
inverses, no duplicate operations) of the stated order, its Laue group is the group extended by inversion,
its proper subgroup consists of exactly its proper operations, and the contains-inversion and is-proper
queries agree with the operations. -/
theorem group_facts {r : GroupRec} (hr : r ∈ PG.all) (b : Basis) {L : List M3} (hL : r.ops b = some L) :
    GroupFacts r b L := by
  have h := checkGroup_of_mem hr
  unfold checkGroup at h
  simp only [Bool.and_eq_true] at h
  cases b with
  | cub => exact checkIn_sound h.1.2 hL
  | hex => exact checkIn_sound h.2 hL

/-- The `subgroups` query agrees with set inclusion, for all pairs of groups. -/
theorem subgroups_agree {g h : GroupRec} (hg : g ∈ PG.all) (hh : h ∈ PG.all) :
    (h.name ∈ g.subgroupNames) ↔ isSubgroup h g = true := by
  have h1 := good_of_mem hg
  unfold goodRec at h1
  simp only [Bool.and_eq_true] at h1
  have h2 := (List.all_eq_true.mp h1.1.2) h hh
  simp only [beq_iff_eq] at h2
  rw [← h2]
  simp

/-- `isSubgroup` means inclusion of the operation sets in a common lattice basis. -/
theorem subgroup_means_inclusion {g h : GroupRec} (hs : isSubgroup h g = true) :
    ∃ b H G, h.ops b = some H ∧ g.ops b = some G ∧ ∀ x ∈ H, x ∈ G := isSubgroup_sound hs

/-- Each group consists of exactly the operations its Hermann–Mauguin name denotes in the crystal
Cartesian frame (reference table `hmGenerators`, written independently of orix), except for the names
listed as known findings. -/
theorem names_denote {r : GroupRec} (hr : r ∈ PG.all) (hk : r.name ∉ C03Known.knownBadNames)
    (b : Basis) {L : List M3} (hL : r.ops b = some L) :
    ∃ R, reference b r.name = some R ∧ ∀ x, x ∈ L ↔ x ∈ R := by
  have h1 := good_of_mem hr
  unfold goodRec at h1
  simp only [Bool.and_eq_true] at h1
  have hc : C03Known.knownBadNames.contains r.name = false := by
    cases hcc : C03Known.knownBadNames.contains r.name with
    | false => rfl
    | true => exact absurd (List.contains_iff_mem.mp hcc) hk
  have hn : checkGroupName r = true := by
    have := h1.2
    rw [hc] at this
    simpa using this
  unfold checkGroupName at hn
  simp only [Bool.and_eq_true] at hn
  cases b with
  | cub => exact checkName_sound hn.1.2 hL
  | hex => exact checkName_sound hn.2 hL

/-- The known findings are genuine: a listed name does NOT denote its group. -/
theorem names_known_bad {r : GroupRec} (hr : r ∈ PG.all) (hk : r.name ∈ C03Known.knownBadNames) :
    checkGroupName r = false := by
  have h1 := good_of_mem hr
  unfold goodRec at h1
  simp only [Bool.and_eq_true] at h1
  have hc : C03Known.knownBadNames.contains r.name = true := List.contains_iff_mem.mpr hk
  have := h1.2
  rw [hc] at this
  simpa using this

/-- All 230 space-group numbers are in the table, in order. -/
theorem space_groups_complete : SG.sgs.map (·.number) = List.range' 1 230 := sg_numbers

/-- For every space group not listed as a known finding, the point group assigned to a phase is exactly
the set of rotational parts of the space group's symmetry operations (in the lattice basis of the
phase frame, `a ∥ e1`, `c* ∥ e3`). -/
theorem space_groups_ok {s : SpaceGroupRec} (hs : s ∈ SG.sgs) (hk : s.number ∉ C03Known.knownBadSG) :
    ∃ g L, lookup PG.all s.pointGroup = some g ∧ g.ops s.basis = some L ∧ ∀ x, x ∈ L ↔ x ∈ s.rotParts := by
  apply sgOk_sound
  cases h : sgOk PG.all s with
  | true => rfl
  | false =>
    exfalso
    apply hk
    rw [← sg_bad_eq]
    unfold sgBad
    rw [List.mem_map]
    exact ⟨s, List.mem_filter.mpr ⟨hs, by simp [h]⟩, rfl⟩

/-- The listed space groups are genuine findings: their assigned point group is NOT the set of
rotational parts. -/
theorem space_groups_known_bad {s : SpaceGroupRec} (hs : s ∈ SG.sgs) (hk : s.number ∈ C03Known.knownBadSG) :
    sgOk PG.all s = false := by
  rw [← sg_bad_eq] at hk
  unfold sgBad at hk
  rw [List.mem_map] at hk
  obtain ⟨t, ht, hn⟩ := hk
  have ht' := List.mem_filter.mp ht
  -- numbers are distinct, so t = s
  have hnodup : (SG.sgs.map (·.number)).Nodup := by rw [sg_numbers]; exact List.nodup_range'
  have : t = s := eq_of_nodup_map (·.number) hnodup ht'.1 hs hn
  subst this
  simpa using ht'.2

/-! non-vacuity: the tables are non-empty and the hypotheses are met -/
example : PG.all.length = 38 := by decide
example : PG.g37 ∈ PG.all := by simp [PG.all]
example : PG.g37.name = "m-3m" ∧ PG.g37.order = 48 := by decide
example : SG.sgs.length = 230 := by decide +kernel

end Orix.C03
