import OrixProofs.Lemmas.NDArray
import OrixProofs.Lemmas.NDArrayObj
import OrixProofs.Lemmas.NDArrayObjWF
import OrixProofs.Lemmas.NDArrayPerm
/-
C16 — array-like objects have value semantics under structural operations.

The statements are about the model `OrixModel/NDArray.lean` (tied to orix by the correspondence check
`harness/props/c16.py`, sites `prog_model`) and hold for *all* arrays, shapes, keys, axes and programs.

  A  every structural operation is an index map `(op A)[i] = A[π i]` with explicit `π`
  B  naturality: `op (A.map g) = (op A).map g` for every `g`; hence the data columns and the improper flags of
     a rotation, which orix moves by separate calls, are moved by the same `π` (`*_joint`)
  C  programs: naturality for every finite composition (induction over the program); the result on real
     data is the result on the index array with the recorded element-wise history looked up
  D  NDArray.flatten uses one fixed order (first axis fastest) and is idempotent
  E  metadata: preserved by every single-object operation and every program of them (pair swapped by the
     inverse of a misorientation)

The no-mutation clause is a statement about the implementation (model functions are pure by
construction); it is checked on orix itself by the `nomut` and `prog_index` sites.
Only property theorems and non-vacuity examples live in this file.
-/
namespace Orix.C16
open Orix NDArray

variable {α β ε ε' : Type}

/-! ## A. index maps -/

/-- reshape: the C-order sequence of elements is unchanged (π = identity on flat positions) -/
theorem reshape_index {dims : List Int} {A B : NDArray α} (h : NDArray.reshape dims A = .ok B) :
    B.data = A.data ∧ resolveShape (prod A.shape) dims = .ok B.shape := by
  unfold NDArray.reshape at h
  cases hr : resolveShape (prod A.shape) dims with
  | error e => rw [hr] at h; cases h
  | ok ns =>
    rw [hr] at h
    simp only [bind, Except.bind] at h
    by_cases hn : ns = []
    · rw [if_pos hn] at h; cases h
    · rw [if_neg hn] at h
      cases h
      exact ⟨rfl, rfl⟩

/-- squeeze: the C-order sequence of elements is unchanged, size-1 axes disappear (never to 0-d) -/
theorem squeeze_index (A : NDArray α) :
    (NDArray.squeeze A).data = A.data ∧ (NDArray.squeeze A).shape = atleast1 (A.shape.filter (· ≠ 1)) := ⟨rfl, rfl⟩

/-- NDArray.transpose with a permutation `p`: `B[j] = A[unperm p j]`, where `(unperm p j)[p[k]] = j[k]` -/
theorem transpose_index {p : List Nat} {A B : NDArray α} (h : transposePerm p A = .ok B) (j : List Nat)
    (hj : validIdx B.shape j = true) : B.get? j = A.get? (unperm p j) :=
  transposePerm_get? h j hj

/-- 1-d objects are returned unchanged by `transpose`, whatever the axes -/
theorem transpose_1d (e : Nat) (axes : Option (List Int)) (A : NDArray α) (h : A.shape.length = 1) :
    NDArray.transpose e axes A = .ok A := by
  unfold transpose; simp [h]

/-- 2-d objects without axes: the two axes are swapped -/
theorem transpose_2d_default {e : Nat} {A B : NDArray α} {m n : Nat} (hs : A.shape = [m, n])
    (h : NDArray.transpose e none A = .ok B) (i j : Nat) (hi : i < n) (hj : j < m) :
    B.get? [i, j] = A.get? [j, i] := by
  unfold NDArray.transpose at h
  simp only [hs, List.length_cons, List.length_nil, Nat.reduceAdd, OfNat.ofNat_ne_one, if_false, if_true] at h
  have hB : B.shape = [n, m] := by
    have := h
    unfold transposePerm at this
    rw [ofOpt_ok] at this
    rw [(gatherList_data this).1, hs]
    rfl
  have := transposePerm_get? h [i, j] (by rw [hB]; simp [validIdx, hi, hj])
  rw [this]
  rfl

/-- error cases of transpose: more than two axes need explicit axes; the number of axes must fit -/
theorem transpose_errors (e : Nat) (A : NDArray α) :
    (A.shape.length ≠ 1 → A.shape.length ≠ 2 → NDArray.transpose e none A = .error .value) ∧
    (∀ ax : List Int, A.shape.length ≠ 1 → ax.length ≠ A.shape.length →
      NDArray.transpose e (some ax) A = .error .value) := by
  constructor
  · intro h1 h2; unfold transpose; simp [h1, h2]
  · intro ax h1 h2; unfold transpose; simp [h1, h2]

/-- flatten: the result is 1-d and position `ravel (reverse shape) j` holds `A[reverse j]` — the first axis
runs fastest (column-major order) -/
theorem flatten_index {A B : NDArray α} (h : NDArray.flatten A = .ok B) (j : List Nat)
    (hj : validIdx A.shape.reverse j = true) :
    B.shape = [prod A.shape] ∧ B.data[ravel A.shape.reverse j]? = A.get? j.reverse :=
  flatten_getElem? h j hj

/-- NDArray.getitem with a tuple key: the `k`-th element of the result (C order) is the source element at the `k`-th
member of the cartesian product of the per-axis selections; as a multi-index map: `B[j] = A[pick sels j]` -/
theorem getitem_index {items : List KeyItem} {A B : NDArray α} (h : NDArray.getitem (.tuple items) A = .ok B) :
    ∃ sels, selections A.shape items = .ok sels ∧
      B.shape = atleast1 ((sels.filter (·.2)).map (·.1.length)) ∧
      (∀ (k : Nat) (i : List Nat), (cart (sels.map (·.1)))[k]? = some i → B.data[k]? = A.get? i) ∧
      (∀ j, validIdx ((sels.map (·.1)).map List.length) j = true →
        B.data[ravel ((sels.map (·.1)).map List.length) j]? = A.get? (pick (sels.map (·.1)) j)) := by
  simp only [getitem] at h
  cases hs : selections A.shape items with
  | error e => rw [hs] at h; cases h
  | ok sels =>
    rw [hs] at h
    simp only [bind, Except.bind, ofOpt_ok] at h
    refine ⟨sels, rfl, (gatherList_data h).1, fun k i hk => gatherList_getElem? h k i hk, ?_⟩
    intro j hj
    exact gatherList_getElem? h _ _ (cart_getElem? _ j hj)

/-- NDArray.getitem with a boolean mask over the leading axes: the selected positions are the `true` positions of the
mask in C order, the remaining axes are kept whole -/
theorem getitem_mask_index {msh : List Nat} {bits : List Bool} {A B : NDArray α}
    (h : NDArray.getitem (.mask msh bits) A = .ok B) :
    msh = A.shape.take msh.length ∧ bits.length = prod msh ∧
    B.shape = (truePos bits).length :: A.shape.drop msh.length ∧
    ∀ (k : Nat) (i : List Nat), (cart (truePos bits :: (A.shape.drop msh.length).map List.range))[k]? = some i →
      B.data[k]? = (⟨prod msh :: A.shape.drop msh.length, A.data⟩ : NDArray α).get? i := by
  simp only [getitem] at h
  by_cases hc : msh = [] ∨ msh ≠ A.shape.take msh.length ∨ bits.length ≠ prod msh
  · rw [if_pos hc] at h; cases h
  · rw [if_neg hc, ofOpt_ok] at h
    simp only [not_or, not_not] at hc
    exact ⟨hc.2.1, hc.2.2, (gatherList_data h).1, fun k i hk => gatherList_getElem? h k i hk⟩

/-- stack: a new last axis numbers the operands, `B[j ++ [t]] = (operand t)[j]` -/
theorem stack_index {As : List (NDArray α)} {B : NDArray α} (h : NDArray.stack As = .ok B) (j : List Nat) (t : Nat)
    (C : NDArray α) (hC : As[t]? = some C) (hj : validIdx C.shape j = true) :
    B.get? (j ++ [t]) = C.get? j :=
  stack_get? h j t C hC hj

/-! ## B. naturality: operations only look at the shape -/

theorem reshape_natural (g : α → β) (dims : List Int) (A : NDArray α) :
    NDArray.reshape dims (A.map g) = emap (NDArray.map g) (NDArray.reshape dims A) := reshape_map g dims A
theorem transpose_natural (g : α → β) (e : Nat) (axes : Option (List Int)) (A : NDArray α) :
    NDArray.transpose e axes (A.map g) = emap (NDArray.map g) (NDArray.transpose e axes A) := transpose_map g e axes A
theorem flatten_natural (g : α → β) (A : NDArray α) :
    NDArray.flatten (A.map g) = emap (NDArray.map g) (NDArray.flatten A) := flatten_map g A
theorem squeeze_natural (g : α → β) (A : NDArray α) : NDArray.squeeze (A.map g) = (NDArray.squeeze A).map g := rfl
theorem getitem_natural (g : α → β) (k : Key) (A : NDArray α) :
    NDArray.getitem k (A.map g) = emap (NDArray.map g) (NDArray.getitem k A) := getitem_map g k A
theorem stack_natural (g : α → β) (As : List (NDArray α)) :
    NDArray.stack (As.map (NDArray.map g)) = emap (NDArray.map g) (NDArray.stack As) := stack_map g As

/-- orix moves the data columns and the improper flags of a rotation by two separate calls
(`self.data[key]` and `self.improper[key]`); both are the same index map, so the result is the operation
applied to the array of (data, flag) pairs: every element keeps its own flag. -/
theorem getitem_joint (k : Key) (O : Obj ε) (hr : O.cls.isRot = true) :
    O.getitem k = emap (fun a => { O with arr := a }) (NDArray.getitem k O.arr) := by
  unfold Obj.getitem
  rw [Obj.split_joint O.cls _ (Obj.natural_getitem k)]
  cases NDArray.getitem k O.arr <;> simp [hr, bind, Except.bind]

theorem flatten_joint (O : Obj ε) (hr : O.cls.isRot = true) :
    O.flatten = emap (fun a => { O with arr := a }) (NDArray.flatten O.arr) := by
  unfold Obj.flatten
  rw [Obj.split_joint O.cls _ Obj.natural_flatten]
  cases NDArray.flatten O.arr <;> simp [hr, bind, Except.bind]

/-- axes given as non-negative numbers (or omitted) mean the same for the data array (which has the extra
component axis) and for the flags array -/
theorem transpose_extra_irrelevant (e : Nat) (axes : Option (List Int))
    (hax : ∀ ax, axes = some ax → ∀ a ∈ ax, (0 : Int) ≤ a) (A : NDArray α) :
    NDArray.transpose e axes A = NDArray.transpose 0 axes A := by
  cases axes with
  | none => rfl
  | some ax =>
    have hn : ∀ m : Int, ax.map (fun a => if a < 0 then a + m else a) = ax := by
      intro m
      conv_rhs => rw [← List.map_id ax]
      apply List.map_congr_left
      intro a ha
      simp [not_lt.2 (hax ax rfl a ha)]
    unfold NDArray.transpose normAxes
    simp only [hn]

theorem transpose_joint (axes : Option (List Int)) (hax : ∀ ax, axes = some ax → ∀ a ∈ ax, (0 : Int) ≤ a)
    (O : Obj ε) (hr : O.cls.isRot = true) :
    O.transpose axes = emap (fun a => { O with arr := a }) (NDArray.transpose 0 axes O.arr) := by
  unfold Obj.transpose
  have : (fun {γ : Type} (A : NDArray γ) => NDArray.transpose 1 axes A) =
      (fun {γ : Type} (A : NDArray γ) => NDArray.transpose 0 axes A) := by
    funext γ A; exact transpose_extra_irrelevant 1 axes hax A
  rw [this, Obj.split_joint O.cls _ (Obj.natural_transpose 0 axes)]
  cases NDArray.transpose 0 axes O.arr <;> simp [hr, bind, Except.bind]

/-! ## C. programs -/

/-- Naturality of every finite program: for `g` commuting with the element-wise operations, running the
program on the mapped object is mapping the result.  (Induction over the program.) -/
theorem run_natural {E : ElemOps ε} {E' : ElemOps ε'} {g : ε → ε'} (hg : ElemHom E E' g)
    (prog : List (Op ε)) (O : Obj ε) :
    (O.map g).run E' (prog.map (Op.map g)) = emap (Obj.map g) (O.run E prog) :=
  Obj.run_map hg prog O

/-- Elements are permuted exactly as an index array is permuted: the result of any program on real data is
the result of the same program on the index object (element = source position + history of element-wise
operations, flags attached), with the sources looked up afterwards.  In particular each output element is
one input element (or NDArray.stack operand element) with exactly the element-wise operations of the program applied
to it, and it carries that element's flag. -/
theorem run_index_array (E : ElemOps ε) (O : Obj ε) (lookup : Nat → ε)
    (hl : ∀ k e, O.arr.data[k]? = some e → lookup k = e.1) (prog : List (Op SymE)) :
    O.run E (prog.map (Op.map (evalSym E lookup))) =
      emap (Obj.map (evalSym E lookup)) ((Obj.indexObj O).run symOps prog) := by
  have := Obj.run_map (evalSym_hom E lookup) prog (Obj.indexObj O)
  rw [Obj.indexObj_eval E O lookup hl] at this
  exact this

/-- a lookup function exists for every object -/
theorem lookup_exists [Inhabited ε] (O : Obj ε) :
    ∃ lookup : Nat → ε, ∀ k e, O.arr.data[k]? = some e → lookup k = e.1 :=
  ⟨fun k => match O.arr.data[k]? with | some e => e.1 | none => default, fun k e hk => by simp [hk]⟩

/-! ## D. NDArray.flatten order -/

theorem flatten_shape {A B : NDArray α} (h : NDArray.flatten A = .ok B) : B.shape = [prod A.shape] := by
  unfold NDArray.flatten at h
  cases hT : transposePerm (List.range A.shape.length).reverse A with
  | error e => rw [hT] at h; cases h
  | ok T => rw [hT] at h; cases h; rfl

/-- a 1-d well-formed array is a fixed point of flatten; hence NDArray.flatten is idempotent -/
theorem flatten_1d (A : NDArray α) (n : Nat) (hs : A.shape = [n]) (hw : A.WF) : NDArray.flatten A = .ok A := by
  have hlen : A.data.length = n := by rw [hw, hs]; simp [prod]
  unfold NDArray.flatten transposePerm
  have hsrc : (allIdx [n]).map (unperm [0]) = (List.range n).map (fun i => [i]) := by
    have h1 : ∀ l : List Nat, l.flatMap (fun i => [[i]]) = l.map (fun i => [i]) := by
      intro l
      induction l with
      | nil => rfl
      | cons x xs ih => simp only [List.flatMap_cons, List.map_cons, ih, List.singleton_append]
    simp only [allIdx, cart, List.map_cons, List.map_nil, h1, List.map_map]
    apply List.map_congr_left
    intro i _
    simp [unperm]
  have hg : gatherList A [n] ((List.range n).map (fun i => [i])) = some A := by
    unfold gatherList
    have : ((List.range n).map (fun i => [i])).map A.get? = A.data.map some := by
      apply List.ext_getElem?
      intro k
      simp only [List.getElem?_map, List.map_map, Function.comp_def]
      by_cases hk : k < n
      · rw [List.getElem?_range hk]
        simp only [Option.map_some, get?, hs, validIdx, hk, decide_true, Bool.and_self, if_true, ravel, prod,
          Nat.mul_one, Nat.add_zero]
        rw [List.getElem?_eq_getElem (by omega)]
        simp
      · rw [List.getElem?_eq_none (by simp; omega), List.getElem?_eq_none (by omega)]
        rfl
    rw [this, optAll_eq_some.2 rfl]
    cases A
    simp_all
  simp only [hs, List.length_cons, List.length_nil, Nat.reduceAdd]
  have hr : (List.range 1).reverse = [0] := rfl
  simp only [hr, List.filterMap_cons, List.getElem?_cons_zero, List.filterMap_nil, hsrc, hg, ofOpt, bind,
    Except.bind, prod, Nat.mul_one]
  cases A
  simp_all

/-- flatten is idempotent: one fixed order, applying it twice changes nothing -/
theorem flatten_idem {A B : NDArray α} (h : NDArray.flatten A = .ok B) : NDArray.flatten B = .ok B := by
  have hs := flatten_shape h
  refine flatten_1d B _ hs ?_
  unfold NDArray.flatten at h
  cases hT : transposePerm (List.range A.shape.length).reverse A with
  | error e => rw [hT] at h; cases h
  | ok T =>
    rw [hT] at h
    cases h
    unfold transposePerm at hT
    rw [ofOpt_ok] at hT
    have hl := gatherList_length hT
    rw [List.length_map, length_allIdx, revShape] at hl
    show T.data.length = prod [prod A.shape]
    rw [hl]
    have hp : ∀ s : List Nat, prod s = s.prod := by
      intro s; induction s with
      | nil => rfl
      | cons a s ih => simp [prod, ih]
    simp [prod, hp, List.prod_reverse]

/-- every class flattens in the same order: the object-level flatten is the array-level flatten of the
widened array for the rotation classes (`flatten_joint`) and of the data for the others -/
theorem flatten_same_order_all_classes (O : Obj ε) :
    O.flatten = emap (fun a => { O with arr := if O.cls.isRot then a else a.map (fun e => (e.1, false)) })
      (NDArray.flatten O.arr) := by
  unfold Obj.flatten
  rw [Obj.split_joint O.cls _ Obj.natural_flatten]
  cases NDArray.flatten O.arr with
  | error e => rfl
  | ok B => cases O.cls.isRot <;> rfl

/-! ## E. metadata -/

theorem cls_preserved (E : ElemOps ε) {O O' : Obj ε} {op : Op ε} (h : O.step E op = .ok O') : O'.cls = O.cls := by
  cases op <;> simp only [Obj.step, Obj.getitem, Obj.reshape, Obj.flatten, Obj.transpose, Obj.squeeze, Obj.stack,
    Obj.unit, Obj.inv, Obj.neg, bind, Except.bind] at h
  case getitem k => cases hs : Obj.split O.cls _ _ O.arr <;> rw [hs] at h <;> cases h; rfl
  case reshape d => cases hs : NDArray.reshape d O.arr <;> rw [hs] at h <;> cases h; rfl
  case flatten => cases hs : Obj.split O.cls _ _ O.arr <;> rw [hs] at h <;> cases h; rfl
  case transpose ax => cases hs : Obj.split O.cls _ _ O.arr <;> rw [hs] at h <;> cases h; rfl
  case squeeze => cases h; rfl
  case stack pos others =>
    cases hs : NDArray.stack (List.take pos others ++ O.arr :: List.drop pos others) <;> rw [hs] at h <;> cases h; rfl
  case unit => cases h; rfl
  case inv => by_cases hc : O.cls.isQuat = true <;> simp [hc] at h; cases h; rfl
  case neg => by_cases hc : O.cls.isRot = true <;> simp [hc] at h <;> cases h <;> rfl

/-- Every operation on a single object returns the same symmetry / phase / coordinate format; the inverse of
a misorientation returns the swapped pair. -/
theorem meta_preserved (E : ElemOps ε) {O O' : Obj ε} {op : Op ε} (hO : MetaOK O)
    (hop : op.isStack = false) (h : O.step E op = .ok O') :
    O'.md = expectedMeta O.cls op O.md ∧ MetaOK O' := by
  have hsym : ∀ m : Meta, m.symL = 0 → ({ m with symL := 0 } : Meta) = m := by
    intro m hm; cases m; simp_all
  cases op <;> simp only [Obj.step, Obj.getitem, Obj.reshape, Obj.flatten, Obj.transpose,
    Obj.squeeze, Obj.unit, Obj.inv, Obj.neg, bind, Except.bind, Op.isStack] at h hop
  case getitem k =>
    cases hs : Obj.split O.cls _ _ O.arr <;> rw [hs] at h <;> cases h
    exact ⟨by simp [expectedMeta, Op.isInv], hO⟩
  case reshape d =>
    cases hs : NDArray.reshape d O.arr <;> rw [hs] at h <;> cases h
    exact ⟨by simp [expectedMeta, Op.isInv], hO⟩
  case flatten =>
    cases hs : Obj.split O.cls _ _ O.arr <;> rw [hs] at h <;> cases h
    exact ⟨by simp [expectedMeta, Op.isInv], hO⟩
  case transpose ax =>
    cases hs : Obj.split O.cls _ _ O.arr <;> rw [hs] at h <;> cases h
    exact ⟨by simp [expectedMeta, Op.isInv], hO⟩
  case squeeze => cases h; exact ⟨by simp [expectedMeta, Op.isInv], hO⟩
  case stack => cases hop
  case unit =>
    cases h
    refine ⟨?_, ?_⟩
    · simp only [expectedMeta, Op.isInv, Bool.false_eq_true, false_and, if_false, Obj.unitMeta, Obj.orientationMeta]
      by_cases hc : O.cls = .orientation
      · simp [hc, hsym _ (hO hc)]
      · simp [hc]
    · intro hc; simp [Obj.unitMeta, Obj.orientationMeta, show O.cls = .orientation from hc]
  case inv =>
    by_cases hq : O.cls.isQuat = true
    · rw [if_pos hq] at h
      cases h
      cases hc : O.cls <;> simp_all [expectedMeta, Op.isInv, Meta.swap, Obj.orientationMeta, MetaOK, Cls.isQuat]
    · rw [if_neg hq] at h; cases h
  case neg =>
    by_cases hr : O.cls.isRot = true
    · rw [if_pos hr] at h
      cases h
      cases hc : O.cls <;>
        simp_all [expectedMeta, Op.isInv, Obj.unitMeta, Obj.orientationMeta, MetaOK, Cls.isRot]
    · rw [if_neg hr] at h
      cases h
      exact ⟨by simp [expectedMeta, Op.isInv], hO⟩

/-- metadata through every finite program of single-object operations (induction over the program): the
class is kept and the metadata is the initial one, with the symmetry pair of a misorientation swapped once per
inverse -/
theorem program_meta (E : ElemOps ε) (prog : List (Op ε)) :
    ∀ {O O' : Obj ε}, MetaOK O → (∀ op ∈ prog, op.isStack = false) → O.run E prog = .ok O' →
      O'.cls = O.cls ∧ O'.md = expectedMetaRun O.cls prog O.md := by
  induction prog with
  | nil => intro O O' _ _ h; cases h; exact ⟨rfl, rfl⟩
  | cons op r ih =>
    intro O O' hO hst h
    simp only [Obj.run, bind, Except.bind] at h
    cases hs : O.step E op with
    | error e => rw [hs] at h; cases h
    | ok O1 =>
      rw [hs] at h
      have h1 := meta_preserved E hO (hst op (List.mem_cons_self ..)) hs
      have hc1 : O1.cls = O.cls := cls_preserved E hs
      have h2 := ih h1.2 (fun o ho => hst o (List.mem_cons_of_mem _ ho)) h
      rw [hc1, h1.1] at h2
      exact ⟨h2.1, h2.2⟩

/-- `squeeze` and unary minus work for every class (they used to fail / lose the metadata for `Miller`) -/
theorem squeeze_neg_all_classes (E : ElemOps ε) (O : Obj ε) :
    (∃ O', O.step E .squeeze = .ok O' ∧ O'.md = O.md ∧ O'.arr = NDArray.squeeze O.arr) ∧
    (O.cls.isRot = false → ∃ O', O.step E .neg = .ok O' ∧ O'.md = O.md) := by
  refine ⟨⟨_, rfl, rfl, rfl⟩, ?_⟩
  intro hr
  exact ⟨{ O with arr := O.arr.map (fun e => (E.neg e.1, e.2)) }, by simp [Obj.step, Obj.neg, hr], rfl⟩

/-! ## F. rearrangements are bijective; the model is total -/

/-- reshape, squeeze, transpose and flatten lose nothing and duplicate nothing: the elements of the result are
a permutation of the elements of the operand (for reshape and squeeze even the same C-order sequence) -/
theorem rearrangement_perm {A B : NDArray α} (hw : A.WF) :
    (∀ dims, NDArray.reshape dims A = .ok B → B.data = A.data) ∧
    (NDArray.squeeze A).data = A.data ∧
    (∀ e axes, NDArray.transpose e axes A = .ok B → B.data.Perm A.data) ∧
    (NDArray.flatten A = .ok B → B.data.Perm A.data) :=
  ⟨fun _ h => (reshape_index h).1, rfl, fun _ _ h => transpose_perm hw h, fun h => flatten_perm hw h⟩

/-- Every step of a program maps a well-formed object (and well-formed stack operands) to a well-formed object
or answers one of the modelled errors; the answer `internal` (a gather reaching outside its source) is
impossible.  In particular the two separate calls by which orix moves data and flags always produce arrays of
the same shape — also for negative axes, which numpy reads differently for the two arrays: then at least one
of the calls raises. -/
theorem step_total (E : ElemOps ε) {O : Obj ε} (hw : O.WF) (op : Op ε) (hop : op.WF) :
    (∃ O', O.step E op = .ok O' ∧ O'.WF) ∨ (∃ e, O.step E op = .error e ∧ e ≠ .internal) :=
  Obj.step_fine E hw op hop

theorem run_total (E : ElemOps ε) (prog : List (Op ε)) (hp : ∀ op ∈ prog, op.WF) {O : Obj ε} (hw : O.WF) :
    (∃ O', O.run E prog = .ok O' ∧ O'.WF) ∨ (∃ e, O.run E prog = .error e ∧ e ≠ .internal) :=
  Obj.run_fine E prog hp hw

/-- negative axes: if numpy accepts them both for the data array (component axis present) and for the flags
array, they denote the same permutation (and then none of them is negative) -/
theorem negative_axes_agree {nd : Nat} {ax : List Int} {p1 p0 : List Nat} (hl : ax.length = nd)
    (h1 : normAxes nd 1 ax = .ok p1) (h0 : normAxes nd 0 ax = .ok p0) : p1 = p0 :=
  normAxes_agree hl h1 h0

/-! ## non-vacuity -/

/-- a 2×3 rotation-like object, transposed, flattened and reversed: flags travel with their elements -/
example :
    (Obj.run (⟨id, id, id⟩ : ElemOps Nat)
      [.transpose none, .flatten, .getitem (.tuple [.slice none none (some (-1))])]
      ⟨.rotation, ⟨[2, 3], [(0, false), (1, true), (2, false), (3, false), (4, true), (5, true)]⟩, Meta.default⟩)
    = .ok ⟨.rotation, ⟨[6], [(5, true), (4, true), (3, false), (2, false), (1, true), (0, false)]⟩, Meta.default⟩ := by
  decide

example : NDArray.reshape [3, -1] (⟨[2, 3], [0, 1, 2, 3, 4, 5]⟩ : NDArray Nat) = .ok ⟨[3, 2], [0, 1, 2, 3, 4, 5]⟩ := by
  decide

example : NDArray.flatten (⟨[2, 3], [0, 1, 2, 3, 4, 5]⟩ : NDArray Nat) = .ok ⟨[6], [0, 3, 1, 4, 2, 5]⟩ := by decide

end Orix.C16
