import Mathlib.Tactic.Ring
import Mathlib.Tactic.FieldSimp
import Mathlib.Tactic.LinearCombination
import Mathlib.Tactic.Positivity
import Mathlib.Tactic.NormNum
import Mathlib.Tactic.Linarith
import OrixProofs.Lemmas.RealScalar
import OrixProofs.Lemmas.Lattice
import OrixProofs.Lemmas.Stereo
import OrixProofs.Lemmas.Hist
import OrixProofs.Lemmas.HistSmooth
import OrixModel.Hist
/-
C20 — stereographic projection is an exact bijection; pole densities are normalised.

All statements are over ℝ, for all vectors / all stereographic coordinates / all weights / all edge lists /
all kernels satisfying the stated contract.  Only property theorems and non-vacuity examples live here.
-/
namespace Orix.C20
open Orix Scalar Stereo Hist LatLemmas StereoLemmas HistLemmas Finset

/-! ## 1. the projection and its inverse -/

/-- Unit vectors of the hemisphere shown for pole `p` (`-p·z ≥ 0`) project into the closed unit disk. -/
theorem stereo_in_disk (p : Pole) (v : Vec3 ℝ) (hv : Vec3.normSq v = 1) (hh : 0 ≤ -p.val * v.z) :
    (vector2xyRaw p v).1 ^ 2 + (vector2xyRaw p v).2 ^ 2 ≤ 1 := by
  have hv' := hv
  simp only [Vec3.normSq, Vec3.dot] at hv'
  have hz : v.z ≠ p.val := by
    intro h; rw [h, neg_mul, val_sq] at hh; linarith
  rw [vector2xyRaw_of_unit p v hv hz]
  simp only
  cases p
  · simp only [val_north] at hh hz ⊢
    have hd : v.z - 1 < 0 := by
      rcases lt_or_gt_of_ne hz with h | h
      · linarith
      · nlinarith [sq_nonneg v.x, sq_nonneg v.y]
    have hne : v.z - 1 ≠ 0 := hd.ne
    rw [div_pow, div_pow, ← add_div, div_le_one (by positivity)]
    nlinarith
  · simp only [val_south] at hh hz ⊢
    have hd : 0 < v.z - -1 := by linarith
    rw [div_pow, div_pow, ← add_div, div_le_one (by positivity)]
    nlinarith

/-- the same for vectors of any non-zero length (the code normalises first) -/
theorem stereo_in_disk_any_length (p : Pole) (v : Vec3 ℝ) (hv : 0 < Vec3.normSq v) (hh : 0 ≤ -p.val * v.z) :
    (vector2xyRaw p v).1 ^ 2 + (vector2xyRaw p v).2 ^ 2 ≤ 1 := by
  have hu := normSq_unit hv
  have hr : vector2xyRaw p v = vector2xyRaw p (Vec3.unit v) := by
    simp only [vector2xyRaw, unit_of_unit hu]
  rw [hr]
  apply stereo_in_disk p _ hu
  rw [unit_of_pos hv]
  have hn := norm_pos hv
  simp only
  rw [← mul_div_assoc]
  exact div_nonneg hh hn.le

/-- On the squared radius: `X² + Y² = (1 + p z)/(1 - p z)`. -/
theorem stereo_radius (p : Pole) (v : Vec3 ℝ) (hv : Vec3.normSq v = 1) (hz : v.z ≠ p.val) :
    (vector2xyRaw p v).1 ^ 2 + (vector2xyRaw p v).2 ^ 2 = (1 + p.val * v.z) / (1 - p.val * v.z) := by
  have hv' := hv
  simp only [Vec3.normSq, Vec3.dot] at hv'
  rw [vector2xyRaw_of_unit p v hv hz]
  simp only
  cases p
  · simp only [val_north] at hz ⊢
    have h1 : v.z - 1 ≠ 0 := sub_ne_zero.mpr hz
    have h2 : 1 - 1 * v.z ≠ 0 := by intro h; apply h1; linarith
    rw [div_pow, div_pow, ← add_div, div_eq_div_iff (pow_ne_zero 2 h1) h2]
    linear_combination (1 - v.z) * hv'
  · simp only [val_south] at hz ⊢
    have h1 : v.z - -1 ≠ 0 := sub_ne_zero.mpr hz
    have h2 : 1 - -1 * v.z ≠ 0 := by intro h; apply h1; linarith
    rw [div_pow, div_pow, ← add_div, div_eq_div_iff (pow_ne_zero 2 h1) h2]
    linear_combination (1 + v.z) * hv'

/-- The inverse projection recovers every unit vector except the projection point itself … -/
theorem inv_stereo (p : Pole) (v : Vec3 ℝ) (hv : Vec3.normSq v = 1) (hz : v.z ≠ p.val) :
    xy2vector p (vector2xyRaw p v).1 (vector2xyRaw p v).2 = v := by
  have hv' := hv
  simp only [Vec3.normSq, Vec3.dot] at hv'
  rw [vector2xyRaw_of_unit p v hv hz]
  simp only [xy2vector, xy2vectorP, npow_two, lit_real]
  obtain ⟨x, y, z⟩ := v
  simp only at hv' hz ⊢
  cases p
  · simp only [val_north] at hz ⊢
    have h1 : z - 1 ≠ 0 := sub_ne_zero.mpr hz
    have h3 : (z - 1) * (z - 1) + x * x + y * y = 2 * (1 - z) := by nlinarith
    have h4 : (1 : ℝ) - z ≠ 0 := by intro h; apply h1; linarith
    congr 1 <;> (field_simp; push_cast)
    · linear_combination (-x) * hv'
    · linear_combination (-y) * hv'
    · linear_combination (1 - z) * hv'
  · simp only [val_south] at hz ⊢
    have h1 : z - -1 ≠ 0 := sub_ne_zero.mpr hz
    have h4 : (1 : ℝ) + z ≠ 0 := by intro h; apply h1; linarith
    congr 1 <;> (field_simp; push_cast)
    · linear_combination (-x) * hv'
    · linear_combination (-y) * hv'
    · linear_combination (-(1 + z)) * hv'

/-- … in particular every unit vector of the closed hemisphere that is shown. -/
theorem inv_stereo_on_hemisphere (p : Pole) (v : Vec3 ℝ) (hv : Vec3.normSq v = 1) (hh : 0 ≤ -p.val * v.z) :
    xy2vector p (vector2xyRaw p v).1 (vector2xyRaw p v).2 = v := by
  apply inv_stereo p v hv
  intro h; rw [h, neg_mul, val_sq] at hh; linarith

/-- The projection point itself is the explicit guarded branch: it is sent to the origin (like the opposite
pole), so it is the one unit vector the inverse cannot recover — and it is never in the hemisphere shown. -/
theorem pole_guard (p : Pole) (v : Vec3 ℝ) (hv : Vec3.normSq v = 1) (hz : v.z = p.val) :
    vector2xyRaw p v = (0, 0) ∧ inRegion p v = false ∧ xy2vector p (0 : ℝ) 0 = ⟨0, 0, -p.val⟩ := by
  refine ⟨vector2xyRaw_at_pole p v hv hz, ?_, ?_⟩
  · rw [Bool.eq_false_iff, Ne, inRegion_iff, hz, neg_mul, val_sq]; norm_num
  · simp only [xy2vector, xy2vectorP, npow_two, lit_real]; cases p <;> simp

/-- The inverse projection produces unit vectors, … -/
theorem xy2vector_unit (p : Pole) (x y : ℝ) : Vec3.normSq (xy2vector p x y) = 1 := by
  have hd : (1 : ℝ) + x * x + y * y ≠ 0 := by nlinarith [mul_self_nonneg x, mul_self_nonneg y]
  have hp := val_sq p
  simp only [xy2vector, xy2vectorP, npow_two, lit_real, Vec3.normSq, Vec3.dot]
  push_cast
  field_simp
  nlinarith [hp]

/-- … never the projection point, in the hemisphere shown exactly for the closed unit disk, … -/
theorem xy2vector_hemisphere (p : Pole) (x y : ℝ) :
    (xy2vector p x y).z ≠ p.val ∧ (0 ≤ -p.val * (xy2vector p x y).z ↔ x ^ 2 + y ^ 2 ≤ 1) := by
  have hd : (0 : ℝ) < 1 + x * x + y * y := by nlinarith [mul_self_nonneg x, mul_self_nonneg y]
  have hp := val_sq p
  simp only [xy2vector, xy2vectorP, npow_two, lit_real]
  push_cast
  constructor
  · intro h
    rw [div_eq_iff hd.ne'] at h
    cases p
    · simp only [val_north] at h; nlinarith
    · simp only [val_south] at h; nlinarith
  · rw [← mul_div_assoc, le_div_iff₀ hd]
    have : -p.val * (-p.val * (1 - x * x - y * y)) = 1 - x * x - y * y := by
      rw [← _root_.mul_assoc, neg_mul_neg, hp, _root_.one_mul]
    rw [this]
    constructor <;> intro h <;> nlinarith

/-- … and projecting back returns the stereographic coordinates, for every point of the plane (in particular
the closed disk): `vector2xy ∘ xy2vector = id`. -/
theorem stereo_inv (p : Pole) (x y : ℝ) : vector2xyRaw p (xy2vector p x y) = (x, y) := by
  have hu := xy2vector_unit p x y
  have hz := (xy2vector_hemisphere p x y).1
  rw [vector2xyRaw_of_unit p _ hu hz]
  have hd : (1 : ℝ) + x * x + y * y ≠ 0 := by nlinarith [mul_self_nonneg x, mul_self_nonneg y]
  simp only [xy2vector, xy2vectorP, npow_two, lit_real] at hz ⊢
  push_cast at hz ⊢
  cases p
  · simp only [val_north] at hz ⊢
    have h2 : -1 * (1 - x * x - y * y) / (1 + x * x + y * y) - 1 = -2 / (1 + x * x + y * y) := by
      field_simp; ring
    rw [h2]
    congr 1 <;> (field_simp)
  · simp only [val_south] at hz ⊢
    have h2 : - -1 * (1 - x * x - y * y) / (1 + x * x + y * y) - -1 = 2 / (1 + x * x + y * y) := by
      field_simp; ring
    rw [h2]
    congr 1 <;> (field_simp)

/-! ## 2. hemisphere split -/

/-- Every vector is assigned to its hemisphere (`z ≥ 0` upper, `z ≤ 0` lower), hence to at least one; it is
in *both* exactly on the band `|z| < 1e-9` around the equator (the test is on the vector as given). -/
theorem split_covers (v : Vec3 ℝ) :
    (0 ≤ v.z → inRegion .south v = true) ∧ (v.z ≤ 0 → inRegion .north v = true)
      ∧ (inRegion .south v = true ∨ inRegion .north v = true)
      ∧ ((inRegion .south v = true ∧ inRegion .north v = true) ↔ |v.z| < 1 / 10 ^ 9) := by
  simp only [inRegion_iff, val_south, val_north, neg_neg, _root_.one_mul]
  have hpos : (0 : ℝ) < 1 / 10 ^ 9 := by positivity
  refine ⟨fun h => by linarith, fun h => by linarith, ?_, ?_⟩
  · by_cases h : 0 ≤ v.z
    · left; linarith
    · right; push Not at h; linarith
  · rw [abs_lt]; constructor
    · rintro ⟨h1, h2⟩; constructor <;> linarith
    · rintro ⟨h1, h2⟩; constructor <;> linarith

/-- vectors clearly above (below) the band are shown in the upper (lower) projection only -/
theorem split_exclusive (v : Vec3 ℝ) :
    (1 / 10 ^ 9 ≤ v.z → inRegion .north v = false) ∧ (v.z ≤ -(1 / 10 ^ 9) → inRegion .south v = false) := by
  constructor <;> intro h <;> rw [Bool.eq_false_iff, Ne, inRegion_iff] <;>
    simp only [val_south, val_north, neg_neg, _root_.one_mul] <;> linarith

/-- on lists: `vector2xy_split` returns the projection of every upper vector in the first pair of outputs and of
every lower vector in the second; equatorial vectors appear in both, nothing is lost. -/
theorem split_lists (vs : List (Vec3 ℝ)) (v : Vec3 ℝ) (hv : v ∈ vs) :
    (0 ≤ v.z → vector2xyRaw .south v ∈ (vector2xySplit vs).1)
      ∧ (v.z ≤ 0 → vector2xyRaw .north v ∈ (vector2xySplit vs).2)
      ∧ vs.length ≤ (vector2xySplit vs).1.length + (vector2xySplit vs).2.length := by
  obtain ⟨h1, h2, -, -⟩ := split_covers v
  refine ⟨fun h => ?_, fun h => ?_, ?_⟩
  · simp only [vector2xySplit, vector2xy, List.mem_map, List.mem_filter]
    exact ⟨v, ⟨hv, h1 h⟩, rfl⟩
  · simp only [vector2xySplit, vector2xy, List.mem_map, List.mem_filter]
    exact ⟨v, ⟨hv, h2 h⟩, rfl⟩
  · simp only [vector2xySplit, vector2xy, List.length_map]
    clear hv h1 h2
    induction vs with
    | nil => simp
    | cons a as ih =>
      have := (split_covers a).2.2.1
      simp only [List.filter_cons, List.length_cons]
      rcases this with h | h
      · rw [if_pos h]; split <;> simp only [List.length_cons] <;> omega
      · rw [if_pos h]; split <;> simp only [List.length_cons] <;> omega

/-! ## 3. spherical ↔ Cartesian -/

/-- `from_polar ∘ to_polar = id`, radians or degrees, for every non-zero vector of any length whose `x`, `y`
are zero or outside the `1e-8` snap band of `Vector3d.azimuth`. -/
theorem polar_roundtrip (deg : Bool) (v : Vec3 ℝ) (hv : 0 < Vec3.normSq v)
    (hx : v.x = 0 ∨ 1 / 10 ^ 8 < |v.x|) (hy : v.y = 0 ∨ 1 / 10 ^ 8 < |v.y|) :
    fromPolar deg (toPolar deg v).1 (toPolar deg v).2.1 (toPolar deg v).2.2 = v := by
  have key := fromPolar_toPolar_rad v hv hx hy
  cases deg
  · simpa [toPolar] using key
  · simp only [toPolar, if_true, fromPolar, deg_rad]
    simpa [fromPolar] using key

/-- inside the snap band the azimuth is computed from a *modified* vector: the round trip is then only
approximate — e.g. `(1e-9, 1, 0)` comes back as `(0, √(1+1e-18), 0)`. Proved witness of the band: -/
theorem polar_snap_witness : azimuth (⟨1 / 10 ^ 9, 1, 0⟩ : Vec3 ℝ) = azimuth (⟨0, 1, 0⟩ : Vec3 ℝ) := by
  have h1 : isclose0 (1 / 10 ^ 9 : ℝ) = true := by
    simp only [isclose0, le_real, abs_real, dec_real]; rw [abs_of_pos (by positivity)]; norm_num
  have h0 : isclose0 (0 : ℝ) = true := by
    simp only [isclose0, le_real, abs_real, dec_real]; norm_num
  simp only [azimuth, h1, h0, if_true]

/-! ## 4. histogram, smoothing, MRD normalisation -/

/-- The 2-d histogram conserves the total weight of the samples that have a bin, for every list of edges. -/
theorem hist_conserves (ea ep : List ℝ) (pts : List (ℝ × ℝ × ℝ)) :
    sumL (hist2 ea ep pts) = inRangeWeight (fun p => bin2 ea ep p.1 p.2.1) (fun p => p.2.2) pts
      ∧ (hist2 ea ep pts).length = (ea.length - 1) * (ep.length - 1) := by
  have := foldl_accumulate (fun p : ℝ × ℝ × ℝ => bin2 ea ep p.1 p.2.1) (fun p => p.2.2) pts
    (List.replicate ((ea.length - 1) * (ep.length - 1)) (Scalar.lit 0))
    (fun p _ i hi => by rw [List.length_replicate]; exact bin2_lt ea ep _ _ i hi)
  simp only [hist2, accumulate]
  rw [this.2, this.1, sumL_replicate_zero, List.length_replicate]
  exact ⟨by ring, rfl⟩

/-- … and a sample has a bin exactly when both its angles have one; the bin found brackets the value:
`eᵢ ≤ x`, and `x < eᵢ₊₁` except in the last bin, which is closed. -/
theorem binIndex_brackets (e : List ℝ) (x : ℝ) (i : Nat) (h : binIndex e x = some i) :
    ∃ lo hi, e[i]? = some lo ∧ e[i + 1]? = some hi ∧ (i = 0 → lo ≤ x) ∧ (x < hi ∨ (x ≤ hi ∧ i + 2 = e.length)) := by
  cases e with
  | nil => simp [binIndex] at h
  | cons lo t =>
    simp only [binIndex] at h
    split at h
    · cases h
    · rename_i hlo
      rw [lt_real, not_lt] at hlo
      -- generalise over the lower edge
      have key : ∀ (t : List ℝ) (lo : ℝ) (i : Nat), binFrom t x = some i →
          ∃ l h', (lo :: t)[i]? = some l ∧ (lo :: t)[i + 1]? = some h'
            ∧ (x < h' ∨ (x ≤ h' ∧ i + 2 = (lo :: t).length)) := by
        intro t
        induction t with
        | nil => intro lo i h; simp [binFrom] at h
        | cons hi t ih =>
          intro lo i h
          cases t with
          | nil =>
            simp only [binFrom] at h
            split at h
            · rename_i hle
              rw [le_real] at hle
              simp only [Option.some.injEq] at h; subst h
              exact ⟨lo, hi, by simp, by simp, Or.inr ⟨hle, by simp⟩⟩
            · cases h
          | cons h2 rest =>
            simp only [binFrom] at h
            split at h
            · rename_i hlt
              rw [lt_real] at hlt
              simp only [Option.some.injEq] at h; subst h
              exact ⟨lo, hi, by simp, by simp, Or.inl hlt⟩
            · cases hb : binFrom (h2 :: rest) x with
              | none => simp [hb] at h
              | some j =>
                simp only [hb, Option.map_some, Option.some.injEq] at h
                subst h
                obtain ⟨l, h', e1, e2, e3⟩ := ih hi j hb
                refine ⟨l, h', by simpa using e1, by simpa using e2, ?_⟩
                rcases e3 with e3 | ⟨e3, e4⟩
                · exact Or.inl e3
                · exact Or.inr ⟨e3, by simp only [List.length_cons] at e4 ⊢; omega⟩
      obtain ⟨l, h', e1, e2, e3⟩ := key t lo i h
      refine ⟨l, h', e1, e2, ?_, e3⟩
      intro hi0; subst hi0
      simp only [List.getElem?_cons_zero, Option.some.injEq] at e1
      rw [← e1]; exact hlo


/-- … for sorted edges "has a bin" means "lies between the first and the last edge" … -/
theorem in_range_iff (lo : ℝ) (t : List ℝ) (x : ℝ) (ht : t ≠ []) (hs : (lo :: t).Pairwise (· ≤ ·)) :
    (binIndex (lo :: t) x).isSome = true ↔ lo ≤ x ∧ x ≤ t.getLast ht :=
  binIndex_isSome_iff lo t x ht hs

/-- … so on the upper-hemisphere grid (azimuth edges from `0` to `2π`, polar edges from `0` to `π/2`, sorted) the
binned samples are exactly the non-zero vectors of the closed upper hemisphere `z ≥ 0`; on the lower grid
(polar edges from `π/2` to `π`) exactly those with `z ≤ 0`.  Together with `hist_conserves`: the histogram's total
is the total weight of the vectors in the hemisphere. -/
theorem binned_iff_in_hemisphere (ta tp : List ℝ) (hta : ta ≠ []) (htp : tp ≠ []) (p0 : ℝ)
    (hsa : ((0 : ℝ) :: ta).Pairwise (· ≤ ·)) (hsp : (p0 :: tp).Pairwise (· ≤ ·))
    (hla : ta.getLast hta = 2 * Real.pi) (v : Vec3 ℝ) (hv : 0 < Vec3.normSq v) :
    (p0 = 0 → tp.getLast htp = Real.pi / 2 →
      ((bin2 (0 :: ta) (p0 :: tp) (azimuth v) (polar v)).isSome = true ↔ 0 ≤ v.z))
    ∧ (p0 = Real.pi / 2 → tp.getLast htp = Real.pi →
      ((bin2 (0 :: ta) (p0 :: tp) (azimuth v) (polar v)).isSome = true ↔ v.z ≤ 0)) := by
  obtain ⟨ha0, ha1⟩ := azimuth_range v
  obtain ⟨hp0, hp1, hup, hlo⟩ := polar_range v hv
  have haz : (binIndex (0 :: ta) (azimuth v)).isSome = true := by
    rw [binIndex_isSome_iff 0 ta _ hta hsa, hla]; exact ⟨ha0, ha1.le⟩
  have key : (bin2 (0 :: ta) (p0 :: tp) (azimuth v) (polar v)).isSome = true
      ↔ (binIndex (p0 :: tp) (polar v)).isSome = true := by
    simp only [bin2]
    cases h1 : binIndex (0 :: ta) (azimuth v) with
    | none => rw [h1] at haz; simp at haz
    | some i => cases h2 : binIndex (p0 :: tp) (polar v) <;> simp
  constructor
  · intro h0 hl
    rw [key, binIndex_isSome_iff p0 tp _ htp hsp, h0, hl, ← hup]
    exact ⟨fun h => h.2, fun h => ⟨hp0, h⟩⟩
  · intro h0 hl
    rw [key, binIndex_isSome_iff p0 tp _ htp hsp, h0, hl, ← hlo]
    exact ⟨fun h => h.1, fun h => ⟨h, hp1⟩⟩

/-- non-negative weights give a non-negative histogram -/
theorem hist_nonneg (ea ep : List ℝ) (pts : List (ℝ × ℝ × ℝ)) (hw : ∀ p ∈ pts, 0 ≤ p.2.2) :
    ∀ x ∈ hist2 ea ep pts, 0 ≤ x := by
  simp only [hist2, accumulate]
  apply foldl_accumulate_nonneg _ _ _ _ hw
  intro x hx
  rw [List.mem_replicate] at hx
  rw [hx.2, lit_real]; simp

/-- Re-binning the folded bin centres (`np.digitize` + `np.add.at`) conserves the total whenever every source
bin has a target bin (as `digitize` on the inner edges guarantees). -/
theorem rebin_conserves (n : Nat) (tgt : Nat → Nat) (h : List ℝ) (ht : ∀ k, k < h.length → tgt k < n) :
    sumL (rebin n tgt h) = sumL h := by
  have := foldl_accumulate (fun p : Nat × ℝ => if tgt p.1 < n then some (tgt p.1) else none) (fun p => p.2)
    (List.zip (List.range h.length) h) (List.replicate n (Scalar.lit 0))
    (fun p _ i hi => by
      rw [List.length_replicate]
      split at hi
      · simp only [Option.some.injEq] at hi; omega
      · cases hi)
  simp only [rebin, accumulate]
  rw [this.2, sumL_replicate_zero, zero_add]
  -- all source bins are in range, so the in-range weight is the whole sum
  have gen : ∀ (l : List ℝ) (s : Nat), (∀ k, k < s + l.length → tgt k < n) →
      inRangeWeight (fun p : Nat × ℝ => if tgt p.1 < n then some (tgt p.1) else none) (fun p => p.2)
        (List.zip (List.range' s l.length) l) = sumL l := by
    intro l
    induction l with
    | nil => intro s _; simp [inRangeWeight, sumL]
    | cons a as ih =>
      intro s hs
      have h0 : tgt s < n := hs s (by simp)
      have := ih (s + 1) (fun k hk => hs k (by simp only [List.length_cons]; omega))
      simp only [List.length_cons, List.range'_succ, List.zip_cons_cons, inRangeWeight, List.foldr_cons, h0, if_true,
        sumL_cons] at this ⊢
      rw [this]
  have := gen h 0 (by simpa using ht)
  rwa [← List.range_eq_range'] at this

/-- Smoothing along the wrapped (azimuth) axis conserves the total for every normalised kernel, along the
reflected (polar) axis for every symmetric normalised kernel, and keeps non-negativity. -/
theorem smoothing_conserves_1d (n r : Nat) (hn : 0 < n) (w f : Nat → ℝ) (hk : KernelContract r w) :
    ∑ i ∈ range n, corr1 wrapIdx n r w f i = ∑ i ∈ range n, f i
      ∧ ∑ i ∈ range n, corr1 reflectIdx n r w f i = ∑ i ∈ range n, f i
      ∧ ((∀ i, 0 ≤ f i) → ∀ i, 0 ≤ corr1 wrapIdx n r w f i ∧ 0 ≤ corr1 reflectIdx n r w f i) := by
  refine ⟨?_, ?_, fun hf i => ⟨corr1_nonneg _ n r w f hk.nonneg hf i, corr1_nonneg _ n r w f hk.nonneg hf i⟩⟩
  · rw [corr1_wrap_mass n r hn, hk.normalised, _root_.one_mul]
  · rw [corr1_reflect_mass n r hn w f hk.symm, hk.normalised, _root_.one_mul]

/-- The 2-d filter `gaussian_filter(hist, σ, mode=("wrap", "reflect"))` under the kernel contract: total mass
conserved, non-negativity kept. -/
theorem smoothing_conserves_and_nonneg (na np r0 r1 : Nat) (hna : 0 < na) (hnp : 0 < np) (w0 w1 : Nat → ℝ)
    (h0 : KernelContract r0 w0) (h1 : KernelContract r1 w1) (h : Nat → Nat → ℝ) :
    ∑ i ∈ range na, ∑ j ∈ range np, smooth2 na np r0 r1 w0 w1 h i j = ∑ i ∈ range na, ∑ j ∈ range np, h i j
      ∧ ((∀ i j, 0 ≤ h i j) → ∀ i j, 0 ≤ smooth2 na np r0 r1 w0 w1 h i j) := by
  constructor
  · simp only [smooth2]
    have step1 : ∀ i ∈ range na, ∑ j ∈ range np,
        corr1 reflectIdx np r1 w1 (fun j' => corr1 wrapIdx na r0 w0 (fun i' => h i' j') i) j
        = ∑ j ∈ range np, corr1 wrapIdx na r0 w0 (fun i' => h i' j) i := by
      intro i _
      exact (smoothing_conserves_1d np r1 hnp w1 _ h1).2.1
    rw [Finset.sum_congr rfl step1, Finset.sum_comm]
    have step2 : ∀ j ∈ range np, ∑ i ∈ range na, corr1 wrapIdx na r0 w0 (fun i' => h i' j) i
        = ∑ i ∈ range na, h i j := by
      intro j _
      exact (smoothing_conserves_1d na r0 hna w0 _ h0).1
    rw [Finset.sum_congr rfl step2, Finset.sum_comm]
  · intro hh i j
    simp only [smooth2]
    apply corr1_nonneg _ _ _ _ _ h1.nonneg
    intro j'
    exact corr1_nonneg _ _ _ _ _ h0.nonneg (fun i' => hh i' j') i

/-- In MRD units the mean over the valid (unmasked) bins is exactly 1. -/
theorem mrd_mean_one (h : List ℝ) (mask : List Bool) (out : List ℝ) (hm : mrd h mask = some out) :
    maskedMean out mask = 1 := by
  simp only [mrd] at hm
  split at hm
  · cases hm
  · rename_i hc
    split at hm
    · cases hm
    · rename_i hz
      simp only [Option.some.injEq] at hm
      subst hm
      rw [beq_real, lit_real] at hz
      simp only [Nat.cast_zero] at hz
      have hcnt : (validCount h mask : ℝ) ≠ 0 := by
        have : validCount h mask ≠ 0 := by simpa using hc
        exact_mod_cast this
      simp only [maskedMean, validCount_map, validSum_div, lit_real] at hz ⊢
      have hs : validSum h mask ≠ 0 := by intro h0; apply hz; rw [h0]; simp
      field_simp

/-- … and MRD values of a non-negative histogram are non-negative. -/
theorem mrd_nonneg (h : List ℝ) (mask : List Bool) (out : List ℝ) (hm : mrd h mask = some out)
    (hh : ∀ x ∈ h, 0 ≤ x) : ∀ x ∈ out, 0 ≤ x := by
  simp only [mrd] at hm
  split at hm
  · cases hm
  · split at hm
    · cases hm
    · simp only [Option.some.injEq] at hm
      subst hm
      intro x hx
      rw [List.mem_map] at hx
      obtain ⟨y, hy, rfl⟩ := hx
      apply div_nonneg (hh y hy)
      simp only [maskedMean, lit_real]
      exact div_nonneg (validSum_nonneg h mask hh) (Nat.cast_nonneg _)

/-- Folded density: with a projection `proj` into the fundamental sector that is constant on symmetry orbits
(`proj (g v) = proj v` — this is property C07), replacing every input vector by a symmetry-equivalent one
(a possibly different operation per vector) leaves the whole pole density unchanged. -/
theorem folded_density_invariant (proj : Vec3 ℝ → Vec3 ℝ) (ea ep : List ℝ) (post : List ℝ → List ℝ)
    (mask : List Bool) (pts : List (Vec3 ℝ × ℝ)) (g : Vec3 ℝ × ℝ → Vec3 ℝ → Vec3 ℝ)
    (hC07 : ∀ p ∈ pts, proj (g p p.1) = proj p.1) :
    pdf proj ea ep post mask (pts.map (fun p => (g p p.1, p.2))) = pdf proj ea ep post mask pts := by
  simp only [pdf, pdfRaw, List.map_map]
  congr 3
  apply List.map_congr_left
  intro p hp
  simp only [Function.comp, hC07 p hp]

/-! ## 5. non-vacuity -/

/-- a concrete unit vector of the upper hemisphere and its projection through the south pole -/
example : Vec3.normSq (⟨3 / 5, 0, 4 / 5⟩ : Vec3 ℝ) = 1 := by simp only [Vec3.normSq, Vec3.dot]; norm_num
example : vector2xyRaw .south (⟨3 / 5, 0, 4 / 5⟩ : Vec3 ℝ) = (1 / 3, 0) := by
  rw [vector2xyRaw_of_unit _ _ (by simp only [Vec3.normSq, Vec3.dot]; norm_num) (by simp only [val_south]; norm_num)]
  simp only [val_south]; norm_num
example : xy2vector .south (1 / 3 : ℝ) 0 = ⟨3 / 5, 0, 4 / 5⟩ := by
  simp only [xy2vector, xy2vectorP, npow_two, lit_real, val_south]; norm_num
/-- an equatorial vector is in both hemispheres -/
example : inRegion .south (⟨1, 0, 0⟩ : Vec3 ℝ) = true ∧ inRegion .north (⟨1, 0, 0⟩ : Vec3 ℝ) = true :=
  ((split_covers ⟨1, 0, 0⟩).2.2.2).mpr (by norm_num)
/-- the box kernel of radius 1 satisfies the kernel contract -/
example : KernelContract 1 (fun _ => (1 : ℝ) / 3) :=
  ⟨fun _ => by norm_num, fun _ _ => rfl, by norm_num [Finset.sum_range_succ]⟩
/-- bins are half-open, the last one is closed, values outside the edges have no bin -/
example : binIndex [(0 : ℝ), 1, 2] (3 / 2) = some 1 ∧ binIndex [(0 : ℝ), 1, 2] 1 = some 1
    ∧ binIndex [(0 : ℝ), 1, 2] 2 = some 1 ∧ binIndex [(0 : ℝ), 1, 2] 3 = none
    ∧ binIndex [(0 : ℝ), 1, 2] (-1) = none := by
  refine ⟨?_, ?_, ?_, ?_, ?_⟩ <;> simp only [binIndex, binFrom, lt_real, le_real] <;> norm_num

end Orix.C20
