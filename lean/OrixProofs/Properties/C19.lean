import Mathlib.Topology.MetricSpace.Lipschitz
import Mathlib.Analysis.SpecialFunctions.Trigonometric.Basic
import Mathlib.Data.List.Dedup
import Mathlib.Tactic.Ring
import Mathlib.Tactic.Linarith
import OrixProofs.Properties.C01
/-
C19 — sampling grids lie in and cover their target region.

Theorems here are the LOGICAL skeleton only: a sample built as `unique(filter inside grid)` lies in the region and has
no duplicates; local samples stay within the requested angle; the three-uniform-samples quaternion is unit; the reduced
fundamental sample `from_euler(0, θ, π/2 − φ)` rotates the sample Z axis exactly onto the direction with polar angle θ
and azimuth φ; and the covering lemma: an `L`-Lipschitz image of a grid of mesh `h` covers the image of the domain within
`L·h`.  The Lipschitz constants of the cubochoric / homochoric / Euler parametrisations are NOT proved, so the covering
radius itself is measured on every run against method-specific multiples fixed in advance (MANIFEST category `other`).
-/
namespace Orix.C19
open Orix

/-- a fundamental-zone sample (`rot[rot < region].unique()`) contains only rotations inside the region … -/
theorem sample_subset_region {α : Type} [DecidableEq α] (inside : α → Bool) (grid : List α) :
    ∀ x ∈ (grid.filter inside).dedup, inside x = true := by
  intro x hx
  exact (List.mem_filter.mp (List.mem_dedup.mp hx)).2
/-- … and no duplicates … -/
theorem sample_nodup {α : Type} [DecidableEq α] (inside : α → Bool) (grid : List α) :
    ((grid.filter inside).dedup).Nodup := List.nodup_dedup _
/-- … and loses nothing of the grid that is inside. -/
theorem sample_complete {α : Type} [DecidableEq α] (inside : α → Bool) (grid : List α) (x : α)
    (hx : x ∈ grid) (hin : inside x = true) : x ∈ (grid.filter inside).dedup :=
  List.mem_dedup.mpr (List.mem_filter.mpr ⟨hx, hin⟩)

/-- local samples stay within the requested angular distance of their centre (they are a filter by that distance) -/
theorem local_within_angle {α : Type} (angle : α → ℝ) (width : ℝ) (grid : List α) :
    ∀ x ∈ grid.filter (fun r => decide (angle r ≤ width)), angle x ≤ width := by
  intro x hx
  simpa using (List.mem_filter.mp hx).2

/-- the "three uniform samples" quaternion is a unit quaternion for every `u₁ ∈ [0, 1]` -/
theorem three_uniform_unit (u1 a b : ℝ) (h0 : 0 ≤ u1) (h1 : u1 ≤ 1) :
    (Real.sqrt (1 - u1) * Real.sin a) ^ 2 + (Real.sqrt (1 - u1) * Real.cos a) ^ 2 +
      (Real.sqrt u1 * Real.sin b) ^ 2 + (Real.sqrt u1 * Real.cos b) ^ 2 = 1 := by
  have e1 : Real.sqrt (1 - u1) ^ 2 = 1 - u1 := Real.sq_sqrt (by linarith)
  have e2 : Real.sqrt u1 ^ 2 = u1 := Real.sq_sqrt h0
  have sa := Real.sin_sq_add_cos_sq a
  have sb := Real.sin_sq_add_cos_sq b
  calc _ = Real.sqrt (1 - u1) ^ 2 * (Real.sin a ^ 2 + Real.cos a ^ 2)
          + Real.sqrt u1 ^ 2 * (Real.sin b ^ 2 + Real.cos b ^ 2) := by ring
    _ = 1 := by rw [sa, sb, e1, e2]; ring

/-- REDUCED FUNDAMENTAL SAMPLE: the rotation with Bunge angles `(0, θ, π/2 − φ)` maps the sample Z axis exactly onto
the crystal direction with polar angle `θ` and azimuth `φ`. -/
theorem reduced_sample_maps_z (θ φ : ℝ) :
    Mat3.mulVec (Conv.qu2om (Conv.eu2qu ⟨0, θ, Real.pi / 2 - φ⟩)) ⟨0, 0, 1⟩
      = ⟨Real.cos φ * Real.sin θ, Real.sin φ * Real.sin θ, Real.cos θ⟩ := by
  rw [C01.qu2om_eu2qu_bunge]
  simp only [ConvSpec.Rz, ConvSpec.Rx, Mat3.mul, Mat3.mulVec, lit_real, cos_real, sin_real, Nat.cast_zero, Nat.cast_one,
    Real.cos_zero, Real.sin_zero, Real.sin_pi_div_two_sub, Real.cos_pi_div_two_sub]
  congr 1 <;> ring

/-- COVERING LEMMA: if every point of the parameter domain is within `h` of a grid point and the parametrisation is
`L`-Lipschitz, then every point of the image of the domain is within `L·h` of the image of a grid point. -/
theorem covering_from_lipschitz {P T : Type} [PseudoMetricSpace P] [PseudoMetricSpace T] (f : P → T) (L : NNReal)
    (hf : LipschitzWith L f) (domain grid : Set P) (h : ℝ)
    (hmesh : ∀ x ∈ domain, ∃ g ∈ grid, dist x g ≤ h) :
    ∀ y ∈ f '' domain, ∃ g ∈ grid, dist y (f g) ≤ L * h := by
  rintro y ⟨x, hx, rfl⟩
  obtain ⟨g, hg, hd⟩ := hmesh x hx
  refine ⟨g, hg, ?_⟩
  calc dist (f x) (f g) ≤ L * dist x g := hf.dist_le_mul x g
    _ ≤ L * h := mul_le_mul_of_nonneg_left hd L.coe_nonneg

/-! non-vacuity -/
example : (([3, 1, 3, 2, 5] : List Nat).filter (fun n => decide (n < 4))).dedup = [1, 3, 2] := by decide

end Orix.C19
