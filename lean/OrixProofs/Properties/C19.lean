import Mathlib.Topology.MetricSpace.Lipschitz
import Mathlib.Analysis.SpecialFunctions.Trigonometric.Basic
import Mathlib.Data.List.Dedup
import Mathlib.Tactic.Ring
import Mathlib.Tactic.LinearCombination
import Mathlib.Tactic.Linarith
import Mathlib.Tactic.NormNum
import Mathlib.Tactic.Positivity
import Mathlib.Analysis.SpecialFunctions.Sqrt
import OrixProofs.Properties.C01
import OrixProofs.Lemmas.SamplingBasic
import OrixProofs.Lemmas.SamplingUV
import OrixProofs.Lemmas.SamplingUVH
import OrixProofs.Lemmas.SamplingCube
import OrixProofs.Lemmas.SamplingCubeGen
import OrixProofs.Lemmas.SamplingEA
import OrixProofs.Lemmas.SO3Cover
/-
C19 — sampling grids lie in and cover their target region.

Section 1 is the LOGICAL skeleton of the fundamental-zone samples: a sample built as `unique(filter inside grid)` lies in the region and has
no duplicates; local samples stay within the requested angle; the three-uniform-samples quaternion is unit; the reduced
fundamental sample `from_euler(0, θ, π/2 − φ)` rotates the sample Z axis exactly onto the direction with polar angle θ
and azimuth φ; and the covering lemma: an `L`-Lipschitz image of a grid of mesh `h` covers the image of the domain within
`L·h`.  The Lipschitz constants of the cubochoric / homochoric / Euler parametrisations are NOT proved, so the covering
radius itself is measured on every run against method-specific multiples fixed in advance (MANIFEST category `other`).

Sections 2–4 are about the MODEL of the deterministic S2 meshes (`OrixModel/Sampling.lean`, tied to
`orix/sampling/S2_sampling.py` and `_polyhedral_sampling.py` by the correspondence sites of `harness/props/c19.py`), at
ℝ and for ALL resolutions:
  * UV mesh: defined for every legitimate input, unit vectors for every input, the chord identity/bound, steps ≤ resolution
    from the integer ceilings, one-dimensional coverings, and THE COVERING THEOREM for `hemisphere="both"`, `offset=0`:
    every direction has a mesh vector within chord `(r·π/180)/√2` — without pole-duplicate removal for every `r > 0`,
    with it for every `r ≥ 0.002°` (below that `np.isclose(polar, π)` with its relative tolerance `1e-5` removes whole
    rings next to the south pole and the bound is false; not a practical resolution: the mesh would have > 10¹⁰ nodes).
    Other hemispheres / offsets in `[0, 1)`: every mesh vector lies in the requested closed hemisphere
    (`uv_mesh_in_hemisphere`, either flag) and, for the grid with its pole duplicates, every direction of that hemisphere
    has a mesh vector within squared chord `(5/4)·(r·π/180)²` (`uv_hemisphere_grid_covers`: one full polar step, half an
    azimuth step modulo 2π); with offset 0 the same after pole-duplicate removal for `r ≥ 0.002°`
    (`uv_hemisphere_mesh_covers`).  With an offset AND pole-duplicate removal no covering is proved (the ring next to the pole
    can be removed entirely when `offset·step` is inside the `np.isclose` window).
  * cube meshes: unit vectors and the count `6·(2·steps)² + 2` for all three grid types; for the normalized grid the
    spacing `1/steps ≤ tan r`, "the six face lists and the two corners contain every lattice point of the cube surface",
    and the covering theorem (chord ≤ tan(r)/√2) for `0 < r < 90°`; for `90° < r ≤ 135°` the code divides by zero
    (proved for `r = 120°`; open finding C19-s2-tan-resolution-above-90).
  * spherified-edge grid: defined for every r > 0, equiangular edge points with angular step ≤ r, and THE COVERING
    THEOREM for every `r > 0`: every direction has a mesh vector within chord `√2·r·π/180`
    (`spherified_edge_covers_sphere`).
  * spherified-corner grid (default of `sample_S2`): defined for every r > 0 and THE COVERING THEOREM for every `r > 0`:
    every direction has a mesh vector within chord `1.5·r·π/180` (`spherified_corner_covers_sphere`).
  * equal-area mesh: unit vectors; defined for every r > 0 (any hemisphere, either endpoint flag); and THE COVERING
    THEOREM for `hemisphere="both"`: every direction `v` has a mesh vector `g` with `v·g ≥ cos(π/(4D)) − 1/(2D)`,
    `D = ⌈90/r⌉`, hence `≥ cos(rπ/360) − r/180` for `0 < r ≤ 360°` — without pole-duplicate removal for every `r > 0`,
    with it for `r ≥ 0.002°`; the same for `hemisphere="upper"` / `"lower"` over the requested closed hemisphere, and every
    mesh vector lies in that hemisphere (`equal_area_mesh_in_hemisphere`).  The mesh samples cos θ uniformly, so the angular gaps at the poles scale like `√r`
    (`arccos(1 − 1/(2D))`), which is why the bound is not of the form `cos(c·r)`.
  * hexagonal mesh: unit vectors only.  Icosahedral mesh: no model, no theorem (measured).

Section 5 is about the MODEL of the deterministic SO(3) grids of the methods "quaternion" and "haar_euler"
(`OrixModel/SO3Sampling.lean`, tied to `orix/sampling/SO3_sampling.py` by the sites `so3_num_steps`, `so3_grid`): defined for
every `r > 0` with `n³` resp. `n²·n/2` unit quaternions, and THE COVERING THEOREMS of SO(3) for every `0 < r ≤ 180°`: every
rotation has a grid rotation `q` with `|p·q| ≥ cos(rπ/360)·√(1 - r/(2(360-r)))` ("quaternion") resp.
`cos(rπ/360)·√(1 - r/180)` ("haar_euler").  The cubochoric grid and the restriction of a grid to a fundamental zone are
not covered by a theorem (measured).
-/
namespace Orix.C19
open Orix Scalar Sampling SamplingLemmas LatLemmas SO3Sampling SO3Lemmas

/-! ## 1. logical skeleton of the SO(3) samples, reduced sample, generic covering lemma -/

/-- a fundamental-zone sample (`rot[rot < region].unique()`) contains only rotations inside the region … -/
theorem sample_subset_region {α : Type} [DecidableEq α] (inside : α → Bool) (grid : List α) :
    ∀ x ∈ (grid.filter inside).dedup, inside x = true := by
  intro x hx
  exact (List.mem_filter.mp (List.mem_dedup.mp hx)).2
/-- … and no duplicates … -/
theorem sample_nodup {α : Type} [DecidableEq α] (inside : α → Bool) (grid : List α) :
    ((grid.filter inside).dedup).Nodup := List.nodup_dedup _
/-- … and loses nothing of the grid that is inside. -/
theorem sample_complete {α : Type} [DecidableEq α] (inside : α → Bool) (grid : List α) (x : α)
    (hx : x ∈ grid) (hin : inside x = true) : x ∈ (grid.filter inside).dedup :=
  List.mem_dedup.mpr (List.mem_filter.mpr ⟨hx, hin⟩)

/-- local samples stay within the requested angular distance of their centre (they are a filter by that distance) -/
theorem local_within_angle {α : Type} (angle : α → ℝ) (width : ℝ) (grid : List α) :
    ∀ x ∈ grid.filter (fun r => decide (angle r ≤ width)), angle x ≤ width := by
  intro x hx
  simpa using (List.mem_filter.mp hx).2

/-- the "three uniform samples" quaternion is a unit quaternion for every `u₁ ∈ [0, 1]` -/
theorem three_uniform_unit (u1 a b : ℝ) (h0 : 0 ≤ u1) (h1 : u1 ≤ 1) :
    (Real.sqrt (1 - u1) * Real.sin a) ^ 2 + (Real.sqrt (1 - u1) * Real.cos a) ^ 2 +
      (Real.sqrt u1 * Real.sin b) ^ 2 + (Real.sqrt u1 * Real.cos b) ^ 2 = 1 := by
  have e1 : Real.sqrt (1 - u1) ^ 2 = 1 - u1 := Real.sq_sqrt (by linarith)
  have e2 : Real.sqrt u1 ^ 2 = u1 := Real.sq_sqrt h0
  have sa := Real.sin_sq_add_cos_sq a
  have sb := Real.sin_sq_add_cos_sq b
  calc _ = Real.sqrt (1 - u1) ^ 2 * (Real.sin a ^ 2 + Real.cos a ^ 2)
          + Real.sqrt u1 ^ 2 * (Real.sin b ^ 2 + Real.cos b ^ 2) := by ring
    _ = 1 := by rw [sa, sb, e1, e2]; ring

/-- REDUCED FUNDAMENTAL SAMPLE: the rotation with Bunge angles `(0, θ, π/2 − φ)` maps the sample Z axis exactly onto
the crystal direction with polar angle `θ` and azimuth `φ`. -/
theorem reduced_sample_maps_z (θ φ : ℝ) :
    Mat3.mulVec (Conv.qu2om (Conv.eu2qu ⟨0, θ, Real.pi / 2 - φ⟩)) ⟨0, 0, 1⟩
      = ⟨Real.cos φ * Real.sin θ, Real.sin φ * Real.sin θ, Real.cos θ⟩ := by
  rw [C01.qu2om_eu2qu_bunge]
  simp only [ConvSpec.Rz, ConvSpec.Rx, Mat3.mul, Mat3.mulVec, lit_real, cos_real, sin_real, Nat.cast_zero, Nat.cast_one,
    Real.cos_zero, Real.sin_zero, Real.sin_pi_div_two_sub, Real.cos_pi_div_two_sub]
  congr 1 <;> ring

/-- COVERING LEMMA: if every point of the parameter domain is within `h` of a grid point and the parametrisation is
`L`-Lipschitz, then every point of the image of the domain is within `L·h` of the image of a grid point. -/
theorem covering_from_lipschitz {P T : Type} [PseudoMetricSpace P] [PseudoMetricSpace T] (f : P → T) (L : NNReal)
    (hf : LipschitzWith L f) (domain grid : Set P) (h : ℝ)
    (hmesh : ∀ x ∈ domain, ∃ g ∈ grid, dist x g ≤ h) :
    ∀ y ∈ f '' domain, ∃ g ∈ grid, dist y (f g) ≤ L * h := by
  rintro y ⟨x, hx, rfl⟩
  obtain ⟨g, hg, hd⟩ := hmesh x hx
  refine ⟨g, hg, ?_⟩
  calc dist (f x) (f g) ≤ L * dist x g := hf.dist_le_mul x g
    _ ≤ L * h := mul_le_mul_of_nonneg_left hd L.coe_nonneg

/-! ## 2. UV mesh (`_sample_S2_uv_mesh_coordinates`, `_remove_pole_duplicates`, `sample_S2_uv_mesh`) -/

/-- NO ERROR ON LEGITIMATE INPUT, COUNTS: for every resolution `r > 0`, offset in `[0, 1)`, hemisphere and endpoint flag
the coordinates are defined, with `⌈360/r⌉` azimuth lines and `⌈range/r⌉ + 1` polar lines before the
`polar <= polar_max` filter (`range` = 180 or 90 degrees) -/
theorem uv_coordinates_defined (r : ℝ) (hr : 0 < r) (h : Hemisphere) (off : ℝ) (ho : 0 ≤ off) (ho1 : off < 1)
    (ep : Bool) :
    ∃ c, uvCoordinates r h off ep = .ok c ∧ c.stepsAzimuth = ⌈360 / r⌉.toNat
      ∧ c.stepsPolar = (⌈((h.polarDeg.2 - h.polarDeg.1 : ℕ) : ℝ) / r⌉ + 1).toNat
      ∧ c.azimuth.length = c.stepsAzimuth ∧ 1 ≤ c.stepsAzimuth ∧ 2 ≤ c.stepsPolar := by
  refine ⟨_, uvCoordinates_real r hr h off ho ho1 ep, rfl, rfl, ?_, ?_, ?_⟩
  · simp only [linspace_length]
  · have : 0 < ⌈360 / r⌉ := Int.ceil_pos.mpr (by positivity)
    simp only; omega
  · have hrange : 0 < h.polarDeg.2 - h.polarDeg.1 := by cases h <;> simp [Hemisphere.polarDeg]
    have : 0 < ⌈((h.polarDeg.2 - h.polarDeg.1 : ℕ) : ℝ) / r⌉ :=
      Int.ceil_pos.mpr (div_pos (by exact_mod_cast hrange) hr)
    simp only; omega

theorem uv_mesh_defined (r : ℝ) (hr : 0 < r) (h : Hemisphere) (off : ℝ) (ho : 0 ≤ off) (ho1 : off < 1) (rm : Bool) :
    ∃ vs, uvMesh r h off rm = .ok vs := by
  simp only [uvMesh, uvMeshNodes, uvCoordinates_real r hr h off ho ho1 false]
  exact ⟨_, rfl⟩

/-- UNIT VECTORS, every input: whatever the resolution, hemisphere, offset and duplicate flag, every vector the UV mesh
returns is the spherical direction `(sin θ cos φ, sin θ sin φ, cos θ)` of its node, of length exactly 1 -/
theorem uv_mesh_unit (r : ℝ) (h : Hemisphere) (off : ℝ) (rm : Bool) (vs : List (Vec3 ℝ))
    (hok : uvMesh r h off rm = .ok vs) :
    ∀ v ∈ vs, Vec3.normSq v = 1 ∧ ∃ θ φ : ℝ, v = ⟨Real.cos φ * Real.sin θ, Real.sin φ * Real.sin θ, Real.cos θ⟩ := by
  intro v hv
  unfold uvMesh at hok
  split at hok
  · cases hok
  · rename_i g _
    cases hok
    obtain ⟨⟨a, p⟩, _, rfl⟩ := List.mem_map.mp hv
    rw [nodeVector_eq]
    exact ⟨normSq_sph p a, p, a, rfl⟩

/-- CHORD IDENTITY between two spherical directions -/
theorem uv_chord_identity (θ φ θ' φ' : ℝ) :
    Vec3.normSq (Vec3.sub (sph θ φ) (sph θ' φ'))
      = 2 - 2 * Real.cos (θ - θ') + 2 * Real.sin θ * Real.sin θ' * (1 - Real.cos (φ - φ')) := chord_sq θ φ θ' φ'

/-- CHORD BOUND: `‖u(θ,φ) − u(θ',φ')‖² ≤ (θ−θ')² + (φ−φ')²` -/
theorem uv_chord_bound (θ φ θ' φ' : ℝ) :
    Vec3.normSq (Vec3.sub (sph θ φ) (sph θ' φ')) ≤ (θ - θ') ^ 2 + (φ - φ') ^ 2 := chord_sq_le θ φ θ' φ'

/-- STEPS ≤ RESOLUTION (from the integer ceilings), `hemisphere="both"`: the azimuthal step `2π/⌈360/r⌉` and the polar
step `π/⌈180/r⌉` the code computes are at most `r·π/180` -/
theorem uv_steps_le_resolution (r : ℝ) (hr : 0 < r) (off : ℝ) (ho : 0 ≤ off) (ho1 : off < 1) (ep : Bool) :
    ∃ c, uvCoordinates r .both off ep = .ok c ∧ c.stepAzimuth ≤ r * Real.pi / 180 ∧ c.stepPolar ≤ r * Real.pi / 180 := by
  refine ⟨_, uvCoordinates_real r hr .both off ho ho1 ep, ?_, ?_⟩
  · have := stepAz_le hr; rw [nAz_cast hr] at this; exact this
  · have := stepPol_le hr; rw [nPol_cast hr] at this
    simp only [Hemisphere.polarDeg, Nat.sub_zero, Nat.cast_ofNat, deg2rad_real]
    have e : (180 : ℝ) * (Real.pi / 180) = Real.pi := by ring
    rw [e]; exact this

/-- POLAR LINES COVER `[0, π]` within half a step (`both`, offset 0) -/
theorem uv_polar_covered (r : ℝ) (hr : 0 < r) (ep : Bool) (θ : ℝ) (h0 : 0 ≤ θ) (h1 : θ ≤ Real.pi) :
    ∃ c, uvCoordinates r .both (0 : ℝ) ep = .ok c ∧ ∃ p ∈ c.polar, |θ - p| ≤ c.stepPolar / 2 := by
  obtain ⟨c, hc, -, -, -, hpol⟩ := uvCoordinates_both r hr
  have hreal := uvCoordinates_real r hr .both 0 (le_refl _) (by norm_num) ep
  have hreal' := uvCoordinates_real r hr .both 0 (le_refl _) (by norm_num) false
  rw [hreal'] at hc
  refine ⟨_, hreal, ?_⟩
  obtain ⟨i, hi, hd⟩ := grid_cover (nPol r) (nPol_pos hr) Real.pi Real.pi_pos.le θ h0 h1
  refine ⟨polLine r i, ?_, ?_⟩
  · have : polLine r i ∈ c.polar := by
      rw [hpol]; exact List.mem_map.mpr ⟨i, List.mem_range.mpr (by omega), rfl⟩
    cases hc; exact this
  · simp only [Hemisphere.polarDeg, Nat.sub_zero, Nat.cast_ofNat, deg2rad_real]
    have e : (180 : ℝ) * (Real.pi / 180) = Real.pi := by ring
    rw [e, ← nPol_cast hr]; exact hd

/-- AZIMUTH LINES COVER `[0, 2π]` CYCLICALLY within half a step (`both`, offset 0, no endpoint): the nearest line is a
grid azimuth `a` or its copy `a + 2π` (the same direction) -/
theorem uv_azimuth_covered (r : ℝ) (hr : 0 < r) (φ : ℝ) (h0 : 0 ≤ φ) (h1 : φ ≤ 2 * Real.pi) :
    ∃ c, uvCoordinates r .both (0 : ℝ) false = .ok c ∧
      ∃ a ∈ c.azimuth, |φ - a| ≤ c.stepAzimuth / 2 ∨ |φ - (a + 2 * Real.pi)| ≤ c.stepAzimuth / 2 := by
  obtain ⟨c, hc, -, -, haz, -⟩ := uvCoordinates_both r hr
  have hreal := uvCoordinates_real r hr .both 0 (le_refl _) (by norm_num) false
  have hstep : c.stepAzimuth = 2 * Real.pi / (nAz r : ℝ) := by
    rw [hreal] at hc; cases hc; simp only [nAz_cast hr]
  refine ⟨c, hc, ?_⟩
  obtain ⟨j, hj, hd⟩ := grid_cover (nAz r) (nAz_pos hr) (2 * Real.pi) (by positivity) φ h0 h1
  rcases Nat.lt_or_ge j (nAz r) with hlt | hge
  · exact ⟨azLine r j, by rw [haz]; exact List.mem_map.mpr ⟨j, List.mem_range.mpr hlt, rfl⟩, Or.inl (by rw [hstep]; exact hd)⟩
  · have hjN : j = nAz r := le_antisymm hj hge
    have hN0 : ((nAz r : ℕ) : ℝ) ≠ 0 := by exact_mod_cast (nAz_pos hr).ne'
    have e : ((nAz r : ℕ) : ℝ) * (2 * Real.pi / (nAz r : ℝ)) = 2 * Real.pi := by field_simp
    refine ⟨azLine r 0, by rw [haz]; exact List.mem_map.mpr ⟨0, List.mem_range.mpr (nAz_pos hr), rfl⟩, Or.inr ?_⟩
    have e2 : azLine r 0 + 2 * Real.pi = (j : ℝ) * (2 * Real.pi / (nAz r : ℝ)) := by
      rw [azLine_zero, zero_add, hjN]; exact e.symm
    rw [e2, hstep]; exact hd

/-- membership in the full-sphere mesh: the vector of every grid node `(i, j)` that is not a pole duplicate (or of every
node when duplicates are kept) is returned -/
theorem uv_mesh_mem (r : ℝ) (hr : 0 < r) (rm : Bool) (vs : List (Vec3 ℝ)) (hok : uvMesh r .both (0 : ℝ) rm = .ok vs)
    (i j : ℕ) (hi : i ≤ nPol r) (hj : j < nAz r) (hkeep : rm = true → poleDuplicate (azLine r j, polLine r i) = false) :
    sph (polLine r i) (azLine r j) ∈ vs := by
  obtain ⟨c, hc, -, -, haz, hpol⟩ := uvCoordinates_both r hr
  simp only [uvMesh, uvMeshNodes, hc] at hok
  cases hok
  have hnode : (azLine r j, polLine r i) ∈ meshAP c.azimuth c.polar := by
    rw [mem_meshAP, haz, hpol]
    exact ⟨List.mem_map.mpr ⟨j, List.mem_range.mpr hj, rfl⟩, List.mem_map.mpr ⟨i, List.mem_range.mpr (by omega), rfl⟩⟩
  rw [← nodeVector_eq]
  apply List.mem_map.mpr
  refine ⟨(azLine r j, polLine r i), ?_, rfl⟩
  cases rm
  · exact hnode
  · simp only [if_true, removePoleDuplicates]
    exact List.mem_filter.mpr ⟨hnode, by simp [hkeep rfl]⟩

/-- COVERING THEOREM, grid with its pole duplicates (`remove_pole_duplicates=False`), `hemisphere="both"`, `offset=0`,
EVERY resolution `r > 0` (degrees): every direction of the sphere has a mesh vector within squared chord
`(r·π/180)²/2` -/
theorem uv_grid_covers_sphere (r : ℝ) (hr : 0 < r) (vs : List (Vec3 ℝ))
    (hok : uvMesh r .both (0 : ℝ) false = .ok vs) (v : Vec3 ℝ) (hv : Vec3.normSq v = 1) :
    ∃ g ∈ vs, Vec3.normSq (Vec3.sub v g) ≤ (r * Real.pi / 180) ^ 2 / 2 := by
  obtain ⟨θ, φ, h0, h1, h2, h3, rfl⟩ := exists_sph v hv
  obtain ⟨i, j, hi, hj, hd⟩ := uv_node_near hr h0 h1 h2 h3.le
  exact ⟨_, uv_mesh_mem r hr false vs hok i j hi hj (fun h => by cases h), hd⟩

/-- POLE DUPLICATES LOSE NOTHING (`r ≥ 0.002°`): with and without `_remove_pole_duplicates` the mesh is the same SET
of vectors -/
theorem uv_pole_duplicates_lose_nothing (r : ℝ) (hr : 1 / 500 ≤ r) (vs vs' : List (Vec3 ℝ))
    (hok : uvMesh r .both (0 : ℝ) true = .ok vs) (hok' : uvMesh r .both (0 : ℝ) false = .ok vs') :
    ∀ v, v ∈ vs ↔ v ∈ vs' := by
  have hr0 : 0 < r := by linarith
  obtain ⟨c, hc, -, -, haz, hpol⟩ := uvCoordinates_both r hr0
  intro v
  constructor
  · intro hv
    simp only [uvMesh, uvMeshNodes, hc, if_true, Bool.false_eq_true, if_false] at hok hok'
    cases hok; cases hok'
    obtain ⟨n, hn, rfl⟩ := List.mem_map.mp hv
    exact List.mem_map.mpr ⟨n, (List.mem_filter.mp hn).1, rfl⟩
  · intro hv
    have hok2 := hok'
    simp only [uvMesh, uvMeshNodes, hc, Bool.false_eq_true, if_false] at hok2
    cases hok2
    obtain ⟨⟨a, p⟩, hn, rfl⟩ := List.mem_map.mp hv
    rw [mem_meshAP, haz, hpol] at hn
    obtain ⟨ha, hp⟩ := hn
    obtain ⟨j, hj, rfl⟩ := List.mem_map.mp ha
    obtain ⟨i, hi, rfl⟩ := List.mem_map.mp hp
    have hj' := List.mem_range.mp hj
    have hi' : i ≤ nPol r := by have := List.mem_range.mp hi; omega
    obtain ⟨j', hj'', heq, hkeep⟩ := uv_kept_node hr hi' hj'
    rw [nodeVector_eq, ← heq]
    exact uv_mesh_mem r hr0 true vs hok i j' hi' hj'' (fun _ => hkeep)

/-- COVERING THEOREM for `sample_S2_uv_mesh(r)` as called by `sample_S2` (`hemisphere="both"`, `offset=0`, pole
duplicates removed or not), every resolution `r ≥ 0.002°`: every direction of the sphere has a mesh vector within
squared chord `(r·π/180)²/2` -/
theorem uv_mesh_covers_sphere (r : ℝ) (hr : 1 / 500 ≤ r) (rm : Bool) (vs : List (Vec3 ℝ))
    (hok : uvMesh r .both (0 : ℝ) rm = .ok vs) (v : Vec3 ℝ) (hv : Vec3.normSq v = 1) :
    ∃ g ∈ vs, Vec3.normSq (Vec3.sub v g) ≤ (r * Real.pi / 180) ^ 2 / 2 := by
  have hr0 : 0 < r := by linarith
  cases rm
  · exact uv_grid_covers_sphere r hr0 vs hok v hv
  · obtain ⟨vs', hok'⟩ := uv_mesh_defined r hr0 .both 0 (le_refl _) (by norm_num) false
    obtain ⟨g, hg, hd⟩ := uv_grid_covers_sphere r hr0 vs' hok' v hv
    exact ⟨g, (uv_pole_duplicates_lose_nothing r hr vs vs' hok hok' g).mpr hg, hd⟩

/-- the same as a chord DISTANCE: `‖v − g‖ ≤ (r·π/180)/√2` -/
theorem uv_mesh_covers_sphere_chord (r : ℝ) (hr : 1 / 500 ≤ r) (rm : Bool) (vs : List (Vec3 ℝ))
    (hok : uvMesh r .both (0 : ℝ) rm = .ok vs) (v : Vec3 ℝ) (hv : Vec3.normSq v = 1) :
    ∃ g ∈ vs, Vec3.norm (Vec3.sub v g) ≤ (r * Real.pi / 180) / Real.sqrt 2 := by
  obtain ⟨g, hg, hd⟩ := uv_mesh_covers_sphere r hr rm vs hok v hv
  refine ⟨g, hg, ?_⟩
  have hρ : 0 ≤ r * Real.pi / 180 := by
    have h1 := Real.pi_pos
    have h2 : 0 < r := by linarith
    positivity
  simp only [Vec3.norm, sqrt_real]
  calc Real.sqrt (Vec3.normSq (Vec3.sub v g)) ≤ Real.sqrt ((r * Real.pi / 180) ^ 2 / 2) := Real.sqrt_le_sqrt hd
    _ = (r * Real.pi / 180) / Real.sqrt 2 := by
        rw [Real.sqrt_div (sq_nonneg _), Real.sqrt_sq hρ]

/-- the closed hemisphere a mesh is asked for: all of the sphere, `z ≥ 0`, or `z ≤ 0` -/
def InHemisphere : Hemisphere → Vec3 ℝ → Prop
  | .both, _ => True
  | .upper, v => 0 ≤ v.z
  | .lower, v => v.z ≤ 0


/-- in spherical coordinates: `sph θ φ` (`θ ∈ [0, π]`) lies in the closed hemisphere iff `θ` lies in its polar range -/
theorem inHemisphere_sph (h : Hemisphere) {θ φ : ℝ} (h0 : 0 ≤ θ) (h1 : θ ≤ Real.pi) :
    InHemisphere h (sph θ φ) ↔
      (((h.polarDeg.1 : ℕ) : ℝ) * (Real.pi / 180) ≤ θ ∧ θ ≤ ((h.polarDeg.2 : ℕ) : ℝ) * (Real.pi / 180)) := by
  have hz : (sph θ φ).z = Real.cos θ := rfl
  have hpi := Real.pi_pos
  have e90 : ((90 : ℕ) : ℝ) * (Real.pi / 180) = Real.pi / 2 := by push_cast; ring
  have e180 : ((180 : ℕ) : ℝ) * (Real.pi / 180) = Real.pi := by push_cast; ring
  have e0 : ((0 : ℕ) : ℝ) * (Real.pi / 180) = 0 := by push_cast; ring
  cases h <;> simp only [InHemisphere, Hemisphere.polarDeg, hz, e90, e180, e0]
  · -- upper: cos θ ≥ 0 ↔ θ ≤ π/2
    constructor
    · intro hc
      refine ⟨h0, ?_⟩
      by_contra hlt
      rw [not_le] at hlt
      have := Real.cos_neg_of_pi_div_two_lt_of_lt hlt (by linarith)
      linarith
    · intro hθ; exact Real.cos_nonneg_of_neg_pi_div_two_le_of_le (by linarith) hθ.2
  · -- lower: cos θ ≤ 0 ↔ π/2 ≤ θ
    constructor
    · intro hc
      refine ⟨?_, h1⟩
      by_contra hlt
      rw [not_le] at hlt
      have := Real.cos_pos_of_mem_Ioo ⟨by linarith, hlt⟩
      linarith
    · intro hθ; exact Real.cos_nonpos_of_pi_div_two_le_of_le hθ.1 (by linarith)
  · exact ⟨fun _ => ⟨h0, h1⟩, fun _ => trivial⟩

/-- TARGET REGION, UV mesh: every vector of `sample_S2_uv_mesh(r, hemisphere, offset, remove_pole_duplicates)` lies in
the requested closed hemisphere — every `r > 0`, every offset in `[0, 1)`, either flag -/
theorem uv_mesh_in_hemisphere (r : ℝ) (hr : 0 < r) (h : Hemisphere) (off : ℝ) (ho : 0 ≤ off) (ho1 : off < 1) (rm : Bool)
    (vs : List (Vec3 ℝ)) (hok : uvMesh r h off rm = .ok vs) : ∀ g ∈ vs, InHemisphere h g := by
  obtain ⟨c, hc, -, -, hrange⟩ := uvCoordinates_hemi r hr h off ho ho1
  simp only [uvMesh, uvMeshNodes, hc] at hok
  cases hok
  intro g hg
  obtain ⟨⟨a, p⟩, hn, rfl⟩ := List.mem_map.mp hg
  have hn' : (a, p) ∈ meshAP c.azimuth c.polar := by
    cases rm
    · exact hn
    · simp only [if_true, removePoleDuplicates] at hn
      exact (List.mem_filter.mp hn).1
  rw [mem_meshAP] at hn'
  have hp := hrange p hn'.2
  have hpi := Real.pi_pos
  have hp0 : 0 ≤ p := le_trans (by positivity) hp.1
  have hp1 : p ≤ Real.pi := by
    refine le_trans hp.2 ?_
    have : ((h.polarDeg.2 : ℕ) : ℝ) ≤ 180 := by cases h <;> simp [Hemisphere.polarDeg] <;> norm_num
    calc ((h.polarDeg.2 : ℕ) : ℝ) * (Real.pi / 180) ≤ 180 * (Real.pi / 180) :=
          mul_le_mul_of_nonneg_right this (by positivity)
      _ = Real.pi := by ring
  rw [nodeVector_eq, inHemisphere_sph h hp0 hp1]
  exact hp

/-- COVERING THEOREM, UV mesh of ANY hemisphere with ANY offset in `[0, 1)` (grid with its pole duplicates), every
`r > 0`: every direction of the requested closed hemisphere has a mesh vector within squared chord `(5/4)·(r·π/180)²`
(polar distance at most one step — with an offset the first line is below the pole and the last one is filtered out —
and azimuth distance at most half a step) -/
theorem uv_hemisphere_grid_covers (r : ℝ) (hr : 0 < r) (h : Hemisphere) (off : ℝ) (ho : 0 ≤ off) (ho1 : off < 1)
    (vs : List (Vec3 ℝ)) (hok : uvMesh r h off false = .ok vs) (v : Vec3 ℝ) (hv : Vec3.normSq v = 1)
    (hin : InHemisphere h v) :
    ∃ g ∈ vs, Vec3.normSq (Vec3.sub v g) ≤ 5 / 4 * (r * Real.pi / 180) ^ 2 := by
  obtain ⟨θ, φ, h0, h1, h2, h3, rfl⟩ := exists_sph v hv
  have hθ := (inHemisphere_sph h h0 h1).mp hin
  obtain ⟨i, j, hi, hj, hd⟩ := uv_node_near_hemi hr h ho ho1 hθ.1 hθ.2 h2 h3.le
  refine ⟨_, ?_, hd⟩
  obtain ⟨c, hc, haz, hpol, -⟩ := uvCoordinates_hemi r hr h off ho ho1
  simp only [uvMesh, uvMeshNodes, hc, Bool.false_eq_true, if_false] at hok
  cases hok
  rw [← nodeVector_eq]
  apply List.mem_map.mpr
  refine ⟨(azLineO r off j, polLineH h r off i), ?_, rfl⟩
  rw [mem_meshAP, haz]
  exact ⟨List.mem_map.mpr ⟨j, List.mem_range.mpr hj, rfl⟩, hpol i hi⟩

/-- COVERING THEOREM for `sample_S2_uv_mesh(r, hemisphere, offset=0, remove_pole_duplicates)` — every hemisphere, either
flag, every `r ≥ 0.002°`: every direction of the requested closed hemisphere has a mesh vector within squared chord
`(5/4)·(r·π/180)²` -/
theorem uv_hemisphere_mesh_covers (r : ℝ) (hr : 1 / 500 ≤ r) (h : Hemisphere) (rm : Bool)
    (vs : List (Vec3 ℝ)) (hok : uvMesh r h (0 : ℝ) rm = .ok vs) (v : Vec3 ℝ) (hv : Vec3.normSq v = 1)
    (hin : InHemisphere h v) :
    ∃ g ∈ vs, Vec3.normSq (Vec3.sub v g) ≤ 5 / 4 * (r * Real.pi / 180) ^ 2 := by
  have hr0 : 0 < r := by linarith
  cases rm
  · exact uv_hemisphere_grid_covers r hr0 h 0 (le_refl _) (by norm_num) vs hok v hv hin
  · obtain ⟨θ, φ, h0, h1, h2, h3, rfl⟩ := exists_sph v hv
    have hθ := (inHemisphere_sph h h0 h1).mp hin
    obtain ⟨i, j, hi, hj, hd⟩ := uv_node_near_hemi hr0 h (le_refl (0 : ℝ)) (by norm_num) hθ.1 hθ.2 h2 h3.le
    obtain ⟨j', hj', heq, hkeep⟩ := uv_kept_node_hemi hr h hi hj
    refine ⟨sph (polLineH h r 0 i) (azLineO r 0 j'), ?_, by rw [heq]; exact hd⟩
    obtain ⟨c, hc, haz, hpol, -⟩ := uvCoordinates_hemi r hr0 h 0 (le_refl _) (by norm_num)
    simp only [uvMesh, uvMeshNodes, hc, if_true] at hok
    cases hok
    rw [← nodeVector_eq]
    apply List.mem_map.mpr
    refine ⟨(azLineO r 0 j', polLineH h r 0 i), ?_, rfl⟩
    simp only [removePoleDuplicates]
    apply List.mem_filter.mpr
    refine ⟨?_, by simp [hkeep]⟩
    rw [mem_meshAP, haz]
    exact ⟨List.mem_map.mpr ⟨j', List.mem_range.mpr hj', rfl⟩, hpol i hi⟩

/-! ## 3. equal-area mesh -/

/-- every vector of the equal-area mesh has length 1 (every input) -/
theorem equal_area_mesh_unit (r : ℝ) (h : Hemisphere) (rm : Bool) (vs : List (Vec3 ℝ))
    (hok : eaMesh r h rm = .ok vs) : ∀ v ∈ vs, Vec3.normSq v = 1 := by
  intro v hv
  unfold eaMesh at hok
  split at hok
  · cases hok
  · cases hok
    obtain ⟨⟨a, p⟩, _, rfl⟩ := List.mem_map.mp hv
    rw [nodeVector_eq]; exact normSq_sph p a

/-- `_sample_S2_equal_area_coordinates` is DEFINED for every resolution `r > 0`, every hemisphere and either endpoint
flag (the `azimuth_range` / `polar_range` arguments are not modelled) -/
theorem equal_area_coordinates_defined (r : ℝ) (hr : 0 < r) (h : Hemisphere) (ep : Bool) :
    ∃ c, eaCoordinates r h ep = .ok c ∧ c.steps = ⌈90 / r⌉ := by
  have hr0 : ¬ (Scalar.beq r (0 : ℝ) = true) := by simp [hr.ne']
  have hc : 0 < ⌈90 / r⌉ := Int.ceil_pos.mpr (by positivity)
  have hpi := Real.pi_pos
  have h4 : (2 * Real.pi - 0) / (Real.pi / 2) * (⌈90 / r⌉ : ℝ) = ((4 * ⌈90 / r⌉ : ℤ) : ℝ) := by
    push_cast; field_simp; ring
  have hceil : ⌈(2 * Real.pi - 0) / (Real.pi / 2) * (⌈90 / r⌉ : ℝ)⌉ = 4 * ⌈90 / r⌉ := by
    rw [h4, Int.ceil_intCast]
  unfold eaCoordinates
  simp only [ceilInt_real, lit_real, ofInt_real, pi_real, Nat.cast_zero, Nat.cast_ofNat]
  rw [if_neg hr0]
  simp only [hceil]
  have hpn : ¬ ((h.polarCos.1 - h.polarCos.2) * ⌈90 / r⌉ + 1 < 0) := by
    cases h <;> simp only [Hemisphere.polarCos] <;> omega
  cases ep
  · rw [if_neg (by simp only [Bool.false_eq_true, if_false]; omega), if_neg hpn]
    exact ⟨_, rfl, rfl⟩
  · rw [if_neg (by simp only [if_true]; omega), if_neg hpn]
    exact ⟨_, rfl, rfl⟩

theorem equal_area_mesh_defined (r : ℝ) (hr : 0 < r) (h : Hemisphere) (rm : Bool) : ∃ vs, eaMesh r h rm = .ok vs := by
  obtain ⟨c, hc, -⟩ := equal_area_coordinates_defined r hr h false
  simp only [eaMesh, eaMeshNodes, hc]
  exact ⟨_, rfl⟩

/-- membership in the full-sphere equal-area mesh -/
theorem equal_area_mesh_mem (r : ℝ) (hr : 0 < r) (rm : Bool) (vs : List (Vec3 ℝ)) (hok : eaMesh r .both rm = .ok vs)
    (i j : ℕ) (hi : i ≤ 2 * nEA r) (hj : j < 4 * nEA r)
    (hkeep : rm = true → poleDuplicate (eaAzLine r j, eaPolLine r i) = false) :
    sph (eaPolLine r i) (eaAzLine r j) ∈ vs := by
  obtain ⟨c, hc, -, haz, hpol⟩ := eaCoordinates_both r hr
  simp only [eaMesh, eaMeshNodes, hc] at hok
  cases hok
  have hnode : (eaAzLine r j, eaPolLine r i) ∈ meshAP c.azimuth c.polar := by
    rw [mem_meshAP, haz, hpol]
    exact ⟨List.mem_map.mpr ⟨j, List.mem_range.mpr hj, rfl⟩, List.mem_map.mpr ⟨i, List.mem_range.mpr (by omega), rfl⟩⟩
  rw [← nodeVector_eq]
  apply List.mem_map.mpr
  refine ⟨(eaAzLine r j, eaPolLine r i), ?_, rfl⟩
  cases rm
  · exact hnode
  · simp only [if_true, removePoleDuplicates]
    exact List.mem_filter.mpr ⟨hnode, by simp [hkeep rfl]⟩

/-- the number of nodes of the grid with its pole duplicates: `4D·(2D + 1)`, `D = ⌈90/r⌉` -/
theorem equal_area_grid_count (r : ℝ) (hr : 0 < r) (vs : List (Vec3 ℝ)) (hok : eaMesh r .both false = .ok vs) :
    vs.length = 4 * nEA r * (2 * nEA r + 1) := by
  obtain ⟨c, hc, -, haz, hpol⟩ := eaCoordinates_both r hr
  simp only [eaMesh, eaMeshNodes, hc, Bool.false_eq_true, if_false] at hok
  cases hok
  simp only [List.length_map, meshAP, List.length_flatMap, haz, hpol, List.length_range, List.map_map,
    Function.comp_def, List.map_const', List.sum_replicate, smul_eq_mul]
  ring

/-- COVERING THEOREM, grid with its pole duplicates (`remove_pole_duplicates=False`), `hemisphere="both"`, EVERY
resolution `r > 0`: every direction of the sphere has a mesh vector with scalar product at least
`cos(π/(4D)) − 1/(2D)`, `D = ⌈90/r⌉` -/
theorem equal_area_grid_covers_sphere (r : ℝ) (hr : 0 < r) (vs : List (Vec3 ℝ))
    (hok : eaMesh r .both false = .ok vs) (v : Vec3 ℝ) (hv : Vec3.normSq v = 1) :
    ∃ g ∈ vs, Real.cos (Real.pi / (4 * (nEA r : ℝ))) - 1 / (2 * (nEA r : ℝ)) ≤ Vec3.dot v g := by
  obtain ⟨θ, φ, h0, h1, h2, h3, rfl⟩ := exists_sph v hv
  obtain ⟨i, j, hi, hj, hd⟩ := ea_node_near hr h0 h1 h2 h3.le
  exact ⟨_, equal_area_mesh_mem r hr false vs hok i j hi hj (fun h => by cases h), hd⟩

/-- POLE DUPLICATES LOSE NOTHING (`r ≥ 0.002°`): with and without `_remove_pole_duplicates` the equal-area mesh is the
same SET of vectors -/
theorem equal_area_pole_duplicates_lose_nothing (r : ℝ) (hr : 1 / 500 ≤ r) (vs vs' : List (Vec3 ℝ))
    (hok : eaMesh r .both true = .ok vs) (hok' : eaMesh r .both false = .ok vs') :
    ∀ v, v ∈ vs ↔ v ∈ vs' := by
  have hr0 : 0 < r := by linarith
  obtain ⟨c, hc, -, haz, hpol⟩ := eaCoordinates_both r hr0
  intro v
  constructor
  · intro hv
    simp only [eaMesh, eaMeshNodes, hc, if_true, Bool.false_eq_true, if_false] at hok hok'
    cases hok; cases hok'
    obtain ⟨n, hn, rfl⟩ := List.mem_map.mp hv
    exact List.mem_map.mpr ⟨n, (List.mem_filter.mp hn).1, rfl⟩
  · intro hv
    have hok2 := hok'
    simp only [eaMesh, eaMeshNodes, hc, Bool.false_eq_true, if_false] at hok2
    cases hok2
    obtain ⟨⟨a, p⟩, hn, rfl⟩ := List.mem_map.mp hv
    rw [mem_meshAP, haz, hpol] at hn
    obtain ⟨ha, hp⟩ := hn
    obtain ⟨j, hj, rfl⟩ := List.mem_map.mp ha
    obtain ⟨i, hi, rfl⟩ := List.mem_map.mp hp
    have hj' := List.mem_range.mp hj
    have hi' : i ≤ 2 * nEA r := by have := List.mem_range.mp hi; omega
    obtain ⟨j', hj'', heq, hkeep⟩ := ea_kept_node hr hi' hj'
    rw [nodeVector_eq, ← heq]
    exact equal_area_mesh_mem r hr0 true vs hok i j' hi' hj'' (fun _ => hkeep)

/-- COVERING THEOREM for `sample_S2_equal_area_mesh(r)` as called by `sample_S2` (`hemisphere="both"`, pole duplicates
removed or not), every resolution `0.002° ≤ r ≤ 360°`: every direction `v` of the sphere has a mesh vector `g` with
`v·g ≥ cos(r·π/360) − r/180`.  (The angular covering radius is therefore at most `arccos(cos(rπ/360) − r/180)`, which
behaves like `√(r/90)` rad for small `r`: cos θ is sampled uniformly, so the rings next to the poles are `√`-far.) -/
theorem equal_area_mesh_covers_sphere (r : ℝ) (hr : 1 / 500 ≤ r) (hr' : r ≤ 360) (rm : Bool) (vs : List (Vec3 ℝ))
    (hok : eaMesh r .both rm = .ok vs) (v : Vec3 ℝ) (hv : Vec3.normSq v = 1) :
    ∃ g ∈ vs, Real.cos (r * Real.pi / 360) - r / 180 ≤ Vec3.dot v g := by
  have hr0 : 0 < r := by linarith
  have hb := ea_bound_resolution hr0 hr'
  cases rm
  · obtain ⟨g, hg, hd⟩ := equal_area_grid_covers_sphere r hr0 vs hok v hv
    exact ⟨g, hg, le_trans hb hd⟩
  · obtain ⟨vs', hok'⟩ := equal_area_mesh_defined r hr0 .both false
    obtain ⟨g, hg, hd⟩ := equal_area_grid_covers_sphere r hr0 vs' hok' v hv
    exact ⟨g, (equal_area_pole_duplicates_lose_nothing r hr vs vs' hok hok' g).mpr hg, le_trans hb hd⟩

/-- the same as an ANGLE between unit vectors: `arccos(v·g) ≤ arccos(cos(r·π/360) − r/180)` -/
theorem equal_area_mesh_covering_angle (r : ℝ) (hr : 1 / 500 ≤ r) (hr' : r ≤ 360) (rm : Bool) (vs : List (Vec3 ℝ))
    (hok : eaMesh r .both rm = .ok vs) (v : Vec3 ℝ) (hv : Vec3.normSq v = 1) :
    ∃ g ∈ vs, Real.arccos (Vec3.dot v g) ≤ Real.arccos (Real.cos (r * Real.pi / 360) - r / 180) := by
  obtain ⟨g, hg, hd⟩ := equal_area_mesh_covers_sphere r hr hr' rm vs hok v hv
  exact ⟨g, hg, Real.arccos_le_arccos hd⟩

theorem inHemisphere_iff (h : Hemisphere) (v : Vec3 ℝ) (hz1 : -1 ≤ v.z) (hz2 : v.z ≤ 1) :
    InHemisphere h v ↔ ((htop h : ℝ) - (hspan h : ℝ) ≤ v.z ∧ v.z ≤ (htop h : ℝ)) := by
  cases h <;> simp only [InHemisphere, htop, hspan, Int.cast_one, Int.cast_zero, Nat.cast_ofNat, Nat.cast_one] <;>
    constructor <;> intro h <;> (try trivial) <;> (try constructor) <;> linarith

/-- membership in the equal-area mesh of any hemisphere -/
theorem equal_area_hemisphere_mesh_mem (r : ℝ) (hr : 0 < r) (h : Hemisphere) (rm : Bool) (vs : List (Vec3 ℝ))
    (hok : eaMesh r h rm = .ok vs) (i j : ℕ) (hi : i ≤ hspan h * nEA r) (hj : j < 4 * nEA r)
    (hkeep : rm = true → poleDuplicate (eaAzLine r j, eaPolLineH h r i) = false) :
    sph (eaPolLineH h r i) (eaAzLine r j) ∈ vs := by
  obtain ⟨c, hc, haz, hpol⟩ := eaCoordinates_hemi r hr h
  simp only [eaMesh, eaMeshNodes, hc] at hok
  cases hok
  have hnode : (eaAzLine r j, eaPolLineH h r i) ∈ meshAP c.azimuth c.polar := by
    rw [mem_meshAP, haz, hpol]
    exact ⟨List.mem_map.mpr ⟨j, List.mem_range.mpr hj, rfl⟩, List.mem_map.mpr ⟨i, List.mem_range.mpr (by omega), rfl⟩⟩
  rw [← nodeVector_eq]
  apply List.mem_map.mpr
  refine ⟨(eaAzLine r j, eaPolLineH h r i), ?_, rfl⟩
  cases rm
  · exact hnode
  · simp only [if_true, removePoleDuplicates]
    exact List.mem_filter.mpr ⟨hnode, by simp [hkeep rfl]⟩

/-- TARGET REGION: every vector of `sample_S2_equal_area_mesh(r, hemisphere)` lies in the requested closed hemisphere
(every `r > 0`, with or without pole-duplicate removal) -/
theorem equal_area_mesh_in_hemisphere (r : ℝ) (hr : 0 < r) (h : Hemisphere) (rm : Bool) (vs : List (Vec3 ℝ))
    (hok : eaMesh r h rm = .ok vs) : ∀ g ∈ vs, InHemisphere h g := by
  obtain ⟨c, hc, haz, hpol⟩ := eaCoordinates_hemi r hr h
  simp only [eaMesh, eaMeshNodes, hc] at hok
  cases hok
  intro g hg
  obtain ⟨⟨a, p⟩, hn, rfl⟩ := List.mem_map.mp hg
  have hn' : (a, p) ∈ meshAP c.azimuth c.polar := by
    cases rm
    · exact hn
    · simp only [if_true, removePoleDuplicates] at hn
      exact (List.mem_filter.mp hn).1
  rw [mem_meshAP, hpol] at hn'
  obtain ⟨i, hi, rfl⟩ := List.mem_map.mp hn'.2
  have hi' : i ≤ hspan h * nEA r := by have := List.mem_range.mp hi; omega
  have hm := eaCosLineH_mem hr h hi'
  have hu := eaCosLineH_mem_unit hr h hi'
  rw [nodeVector_eq]
  have hz : (sph (eaPolLineH h r i) a).z = eaCosLineH h r i := by
    simp only [sph, eaPolLineH]; exact Real.cos_arccos hu.1 hu.2
  rw [inHemisphere_iff h _ (by rw [hz]; exact hu.1) (by rw [hz]; exact hu.2), hz]
  exact hm

/-- COVERING THEOREM for any hemisphere, grid with its pole duplicates, EVERY `r > 0`: every direction of the requested
closed hemisphere has a mesh vector with scalar product at least `cos(π/(4D)) − 1/(2D)`, `D = ⌈90/r⌉` -/
theorem equal_area_hemisphere_grid_covers (r : ℝ) (hr : 0 < r) (h : Hemisphere) (vs : List (Vec3 ℝ))
    (hok : eaMesh r h false = .ok vs) (v : Vec3 ℝ) (hv : Vec3.normSq v = 1) (hin : InHemisphere h v) :
    ∃ g ∈ vs, Real.cos (Real.pi / (4 * (nEA r : ℝ))) - 1 / (2 * (nEA r : ℝ)) ≤ Vec3.dot v g := by
  obtain ⟨θ, φ, h0, h1, h2, h3, rfl⟩ := exists_sph v hv
  have hz : (sph θ φ).z = Real.cos θ := rfl
  have hin' := (inHemisphere_iff h _ (by rw [hz]; exact Real.neg_one_le_cos θ) (by rw [hz]; exact Real.cos_le_one θ)).mp hin
  rw [hz] at hin'
  obtain ⟨i, j, hi, hj, hd⟩ := ea_node_near_hemi hr h h0 h1 h2 h3.le hin'.1 hin'.2
  exact ⟨_, equal_area_hemisphere_mesh_mem r hr h false vs hok i j hi hj (fun h => by cases h), hd⟩

/-- COVERING THEOREM for `sample_S2_equal_area_mesh(r, hemisphere, remove_pole_duplicates)`, every hemisphere, either
flag, every resolution `0.002° ≤ r ≤ 360°`: every direction `v` of the requested closed hemisphere has a mesh vector
`g` with `v·g ≥ cos(r·π/360) − r/180` -/
theorem equal_area_hemisphere_mesh_covers (r : ℝ) (hr : 1 / 500 ≤ r) (hr' : r ≤ 360) (h : Hemisphere) (rm : Bool)
    (vs : List (Vec3 ℝ)) (hok : eaMesh r h rm = .ok vs) (v : Vec3 ℝ) (hv : Vec3.normSq v = 1) (hin : InHemisphere h v) :
    ∃ g ∈ vs, Real.cos (r * Real.pi / 360) - r / 180 ≤ Vec3.dot v g := by
  have hr0 : 0 < r := by linarith
  have hb := ea_bound_resolution hr0 hr'
  cases rm
  · obtain ⟨g, hg, hd⟩ := equal_area_hemisphere_grid_covers r hr0 h vs hok v hv hin
    exact ⟨g, hg, le_trans hb hd⟩
  · -- the node found in the full grid has a kept node of the same direction
    obtain ⟨θ, φ, h0, h1, h2, h3, rfl⟩ := exists_sph v hv
    have hz : (sph θ φ).z = Real.cos θ := rfl
    have hin' := (inHemisphere_iff h _ (by rw [hz]; exact Real.neg_one_le_cos θ) (by rw [hz]; exact Real.cos_le_one θ)).mp hin
    rw [hz] at hin'
    obtain ⟨i, j, hi, hj, hd⟩ := ea_node_near_hemi hr0 h h0 h1 h2 h3.le hin'.1 hin'.2
    obtain ⟨j', hj', heq, hkeep⟩ := ea_kept_node_hemi hr h hi hj
    refine ⟨_, equal_area_hemisphere_mesh_mem r hr0 h true vs hok i j' hi hj' (fun _ => hkeep), ?_⟩
    rw [heq]; exact le_trans hb hd

/-! ## 4. cube meshes -/

/-- UNIT VECTORS: all three grid types, every resolution for which the code returns -/
theorem cube_mesh_unit (r : ℝ) (t : GridType) (m : CubeMesh ℝ) (hok : cubeMesh r t = .ok m) :
    ∀ v ∈ m.vectors, Vec3.normSq v = 1 := by
  intro v hv
  unfold cubeMesh at hok
  split at hok
  · cases hok
  · cases hok
    obtain ⟨p, hp, rfl⟩ := List.mem_map.mp hv
    exact normSq_unit (lt_of_lt_of_le one_pos (normSq_cubePoint_pos hp))

/-- COUNTS as closed formulas in the number of steps: `2·steps` points per edge, `6·(2·steps)² + 2` vectors (all three
grid types, any scalar type — also the `Float` instance the driver runs) -/
theorem cube_mesh_count {α : Type} [Scalar α] [HasCeil α] (r : α) (t : GridType) (m : CubeMesh α)
    (hok : cubeMesh r t = .ok m) :
    m.edge.length = (2 * m.steps).toNat ∧ m.vectors.length = 6 * ((2 * m.steps).toNat * (2 * m.steps).toNat) + 2 := by
  unfold cubeMesh at hok
  split at hok
  · cases hok
  · rename_i n g hg
    cases hok
    have hl := length_edgeGrid hg
    exact ⟨hl, by simp only [List.length_map, length_cubePoints, hl]⟩

/-- for a positive number of steps: `24·steps² + 2` vectors -/
theorem cube_mesh_count_pos {α : Type} [Scalar α] [HasCeil α] (r : α) (t : GridType) (m : CubeMesh α)
    (hok : cubeMesh r t = .ok m) (k : ℕ) (hk : m.steps = k) : m.vectors.length = 24 * k ^ 2 + 2 := by
  have h := (cube_mesh_count r t m hok).2
  rw [h, hk]
  have : (2 * (k : ℤ)).toNat = 2 * k := by omega
  rw [this]; ring

/-- NORMALIZED CUBE, `0 < r < 90°`: defined, `steps = ⌈1/tan r⌉ ≥ 1`, and the SPACING `1/steps` of the square grid on
every cube face is at most `tan r` -/
theorem normalized_cube_defined (r : ℝ) (hr : 0 < r) (hr90 : r < 90) :
    ∃ m, cubeMesh r .normalized = .ok m ∧ m.steps = ⌈1 / Real.tan (r * (Real.pi / 180))⌉ ∧ 1 ≤ m.steps
      ∧ 1 / (m.steps : ℝ) ≤ Real.tan (r * (Real.pi / 180)) := by
  refine ⟨{ steps := nCube r, edge := cubeEdge r, vectors := (cubePoints (cubeEdge r)).map Vec3.unit },
    by simp only [cubeMesh, edgeGrid_normalized_real hr hr90], rfl, ?_, cubeSpacing_le hr hr90⟩
  have := nCube_pos hr hr90
  simp only; omega

/-- COVERING THEOREM for the normalized cube mesh, `0 < r < 90°`: every direction of the sphere has a mesh vector
within squared chord `tan²(r)/2` (the square lattice on the cube faces has spacing `≤ tan r`, the six face lists and
two corners contain every lattice point of the surface, and the radial projection does not increase distances) -/
theorem normalized_cube_covers_sphere (r : ℝ) (hr : 0 < r) (hr90 : r < 90) (m : CubeMesh ℝ)
    (hok : cubeMesh r .normalized = .ok m) (v : Vec3 ℝ) (hv : Vec3.normSq v = 1) :
    ∃ g ∈ m.vectors, Vec3.normSq (Vec3.sub v g) ≤ Real.tan (r * (Real.pi / 180)) ^ 2 / 2 := by
  simp only [cubeMesh, edgeGrid_normalized_real hr hr90] at hok
  cases hok
  have hn := nCube_pos hr hr90
  have hsp := cubeSpacing_le hr hr90
  have hnr : (0 : ℝ) < (nCube r : ℝ) := by exact_mod_cast hn
  set h := 1 / (nCube r : ℝ) with hh
  have hh0 : 0 < h := by positivity
  obtain ⟨k, hk, hx, hy, hz, hface⟩ := exists_cube_scale v hv
  obtain ⟨a, ha1, ha2, hda, hap, ham⟩ := round_coord (nCube r) hn (k * v.x) hx
  obtain ⟨b, hb1, hb2, hdb, hbp, hbm⟩ := round_coord (nCube r) hn (k * v.y) hy
  obtain ⟨c, hc1, hc2, hdc, hcp, hcm⟩ := round_coord (nCube r) hn (k * v.z) hz
  have hs : a = nCube r ∨ a = -(nCube r) ∨ b = nCube r ∨ b = -(nCube r) ∨ c = nCube r ∨ c = -(nCube r) := by
    rcases hface with h1 | h1 | h1 | h1 | h1 | h1
    · exact Or.inl (hap h1)
    · exact Or.inr (Or.inl (ham h1))
    · exact Or.inr (Or.inr (Or.inl (hbp h1)))
    · exact Or.inr (Or.inr (Or.inr (Or.inl (hbm h1))))
    · exact Or.inr (Or.inr (Or.inr (Or.inr (Or.inl (hcp h1)))))
    · exact Or.inr (Or.inr (Or.inr (Or.inr (Or.inr (hcm h1)))))
  have hq := lattice_mem_cubePoints hr hr90 a b c ⟨ha1, ha2⟩ ⟨hb1, hb2⟩ ⟨hc1, hc2⟩ hs
  rw [← hh] at hq hda hdb hdc
  set q : Vec3 ℝ := ⟨(a : ℝ) * h, (b : ℝ) * h, (c : ℝ) * h⟩ with hqdef
  refine ⟨Vec3.unit q, List.mem_map.mpr ⟨q, hq, rfl⟩, ?_⟩
  have hcontract := radial_contract v q hv k hk (normSq_cubePoint_pos hq)
  refine le_trans hcontract ?_
  -- the distance on the cube: one coordinate is hit exactly, the other two within half a spacing
  have hone : ((nCube r : ℤ) : ℝ) * h = 1 := by rw [hh]; field_simp
  have hsa := abs_le.mp hda
  have hsb := abs_le.mp hdb
  have hsc := abs_le.mp hdc
  have hA : (k * v.x - (a : ℝ) * h) ^ 2 ≤ (h / 2) ^ 2 := by rw [← sq_abs]; exact pow_le_pow_left₀ (abs_nonneg _) hda 2
  have hB : (k * v.y - (b : ℝ) * h) ^ 2 ≤ (h / 2) ^ 2 := by rw [← sq_abs]; exact pow_le_pow_left₀ (abs_nonneg _) hdb 2
  have hC : (k * v.z - (c : ℝ) * h) ^ 2 ≤ (h / 2) ^ 2 := by rw [← sq_abs]; exact pow_le_pow_left₀ (abs_nonneg _) hdc 2
  have hexact : k * v.x - (a : ℝ) * h = 0 ∨ k * v.y - (b : ℝ) * h = 0 ∨ k * v.z - (c : ℝ) * h = 0 := by
    rcases hface with h1 | h1 | h1 | h1 | h1 | h1
    · left; rw [hap h1, h1, hone]; ring
    · left; rw [ham h1, h1]; push_cast; rw [neg_mul, hone]; ring
    · right; left; rw [hbp h1, h1, hone]; ring
    · right; left; rw [hbm h1, h1]; push_cast; rw [neg_mul, hone]; ring
    · right; right; rw [hcp h1, h1, hone]; ring
    · right; right; rw [hcm h1, h1]; push_cast; rw [neg_mul, hone]; ring
  have hdist : Vec3.normSq (Vec3.sub (Vec3.smul k v) q) ≤ h ^ 2 / 2 := by
    simp only [Vec3.normSq, Vec3.dot, Vec3.sub, Vec3.smul, hqdef]
    rcases hexact with e | e | e
    · rw [e]; nlinarith
    · rw [e]; nlinarith
    · rw [e]; nlinarith
  have htan : h ^ 2 ≤ Real.tan (r * (Real.pi / 180)) ^ 2 := pow_le_pow_left₀ hh0.le hsp 2
  linarith

/-- COUNTER-EXAMPLE (open finding C19-s2-tan-resolution-above-90): at `r = 120°` the normalized-cube code computes
`⌈1/tan 120°⌉ = ⌈-1/√3⌉ = 0` steps and divides by it -/
theorem normalized_cube_raises_at_120 : cubeMesh (120 : ℝ) .normalized = .error .zeroDivision := by
  have ht : Real.tan ((120 : ℝ) * (Real.pi / 180)) = -Real.sqrt 3 := by
    have e : (120 : ℝ) * (Real.pi / 180) = Real.pi - Real.pi / 3 := by ring
    rw [e, Real.tan_pi_sub, Real.tan_pi_div_three]
  have h3 : 1 < Real.sqrt 3 := by
    rw [show (1 : ℝ) = Real.sqrt 1 from Real.sqrt_one.symm]
    exact Real.sqrt_lt_sqrt (by norm_num) (by norm_num)
  have hc : ⌈1 / Real.tan ((120 : ℝ) * (Real.pi / 180))⌉ = 0 := by
    rw [ht, Int.ceil_eq_iff]
    have hpos : 0 < Real.sqrt 3 := by linarith
    constructor
    · push_cast
      have : 1 / -Real.sqrt 3 = -(1 / Real.sqrt 3) := by ring
      rw [this]
      have : 1 / Real.sqrt 3 < 1 := by rw [div_lt_one hpos]; exact h3
      linarith
    · push_cast
      have : 1 / -Real.sqrt 3 = -(1 / Real.sqrt 3) := by ring
      rw [this]
      have : 0 < 1 / Real.sqrt 3 := by positivity
      linarith
  have hn : numberOfEquidistantSteps (120 : ℝ) (Scalar.lit 1 : ℝ) = some 0 := by
    simp only [numberOfEquidistantSteps, ceilInt_real, deg2rad_real, lit_real, Nat.cast_one, tan_real, hc]
  simp only [cubeMesh, edgeGrid, hn, sampleLengthEquidistant, if_true]

/-! ## 5. hexagonal mesh, spherified-edge cube grid -/

/-- UNIT VECTORS of the hexagonal bipyramid mesh (every resolution for which the code returns): no point of the
bipyramid is the origin, so the final `.unit` yields length 1 -/
theorem hexagonal_mesh_unit (r : ℝ) (m : HexMesh ℝ) (hok : hexMesh r = .ok m) : ∀ v ∈ m.vectors, Vec3.normSq v = 1 := by
  intro v hv
  unfold hexMesh at hok
  split at hok
  · cases hok
  · split at hok
    · cases hok
    · cases hok
      obtain ⟨p, hp, rfl⟩ := List.mem_map.mp hv
      exact normSq_unit (normSq_hexPoints_pos hp)

/-- SPHERIFIED-EDGE GRID (`_partial`: no covering theorem for this mesh): defined for every `r > 0`, with
`steps = ⌈(π/4)/(r·π/180)⌉ ≥ 1`; the points on the edge are `tan(i·step)`, `i = -steps..steps-1`, i.e. EQUIANGULAR as
seen from the centre of the sphere along the face's mid-lines, with angular step `(π/4)/steps ≤ r·π/180`.
Missing for a covering bound: away from the mid-lines the angular spacing of the product grid is not the step (up to
about twice as large towards the face corners after projection); measured by the harness instead -/
theorem spherified_edge_equiangular_partial (r : ℝ) (hr : 0 < r) :
    ∃ m, cubeMesh r .spherifiedEdge = .ok m ∧ 1 ≤ m.steps ∧ Real.pi / 4 / (m.steps : ℝ) ≤ r * (Real.pi / 180) ∧
      ∀ x ∈ m.edge, ∃ i : ℤ, -m.steps ≤ i ∧ i < m.steps ∧ Real.arctan x = (i : ℝ) * (Real.pi / 4 / (m.steps : ℝ)) := by
  refine ⟨{ steps := nEdge r, edge := sphEdge r, vectors := (cubePoints (sphEdge r)).map Vec3.unit },
    by simp only [cubeMesh, edgeGrid_spherifiedEdge_real], ?_, edgeStep_le hr, ?_⟩
  · have := nEdge_pos hr; simp only; omega
  · intro x hx
    obtain ⟨i, hi, rfl⟩ := List.mem_map.mp hx
    obtain ⟨h1, h2⟩ := mem_intRange.mp hi
    exact ⟨i, h1, h2, arctan_edge_point hr h1 h2.le⟩

/-- COVERING THEOREM, spherified-edge cube mesh, EVERY resolution `r > 0`: every direction of the sphere has a mesh vector
within squared chord `2·(r·π/180)²` (chord `√2·r·π/180`).  Every coordinate of the point where the direction pierces the
cube is within one angular step — as a length: the tangent is 2-Lipschitz on `[-π/4, π/4]` and the nearest grid angle is
within half a step — of an edge value, the face coordinate is hit exactly, the face lists miss no lattice point
(`lattice_mem_cubePoints_gen`), and the radial projection onto the sphere does not increase distances outside the unit
ball. -/
theorem spherified_edge_covers_sphere (r : ℝ) (hr : 0 < r) (m : CubeMesh ℝ)
    (hok : cubeMesh r .spherifiedEdge = .ok m) (v : Vec3 ℝ) (hv : Vec3.normSq v = 1) :
    ∃ g ∈ m.vectors, Vec3.normSq (Vec3.sub v g) ≤ 2 * (r * (Real.pi / 180)) ^ 2 := by
  simp only [cubeMesh, edgeGrid_spherifiedEdge_real] at hok
  cases hok
  simp only
  rw [sphEdge_eq]
  obtain ⟨g, hg, hd⟩ := cube_cover_gen (nEdge r) (nEdge_pos hr) (sphEdgeFn r) (sphEdgeFn_odd r) (sphEdgeFn_one hr)
    (Real.pi / 4 / (nEdge r : ℝ)) (sphEdge_round hr) v hv
  refine ⟨g, hg, le_trans hd ?_⟩
  have hstep := edgeStep_le hr
  have hnr : (0 : ℝ) < (nEdge r : ℝ) := by exact_mod_cast nEdge_pos hr
  have h0 : 0 ≤ Real.pi / 4 / (nEdge r : ℝ) := by have := Real.pi_pos; positivity
  have := pow_le_pow_left₀ h0 hstep 2
  linarith

/-- COVERING THEOREM, spherified-corner cube mesh (the default method of `sample_S2`), EVERY resolution `r > 0`: every
direction of the sphere has a mesh vector within squared chord `(9/4)·(r·π/180)²` (chord `1.5·r·π/180`).  The edge values
are `tan(i·arctan(√2)/n)/√2`; on `[-arctan √2, arctan √2]` the cosine is at least `1/√3`, so the tangent is 3-Lipschitz
and every cube coordinate is within `(3/(2√2))·step` of an edge value. -/
theorem spherified_corner_covers_sphere (r : ℝ) (hr : 0 < r) (m : CubeMesh ℝ)
    (hok : cubeMesh r .spherifiedCorner = .ok m) (v : Vec3 ℝ) (hv : Vec3.normSq v = 1) :
    ∃ g ∈ m.vectors, Vec3.normSq (Vec3.sub v g) ≤ 9 / 4 * (r * (Real.pi / 180)) ^ 2 := by
  simp only [cubeMesh, edgeGrid_spherifiedCorner_real] at hok
  cases hok
  simp only
  obtain ⟨g, hg, hd⟩ := cube_cover_gen (nCorner r) (nCorner_pos hr) (cornerFn r) (cornerFn_odd r) (cornerFn_one hr)
    (3 / (2 * Real.sqrt 2) * (cornerAngle / (nCorner r : ℝ))) (corner_round hr) v hv
  refine ⟨g, hg, le_trans hd ?_⟩
  have hstep := cornerStep_le hr
  have hnr : (0 : ℝ) < (nCorner r : ℝ) := by exact_mod_cast nCorner_pos hr
  have h0 : 0 ≤ cornerAngle / (nCorner r : ℝ) := by have := cornerAngle_pos; positivity
  have hsq := pow_le_pow_left₀ h0 hstep 2
  have h2 : Real.sqrt 2 ^ 2 = 2 := Real.sq_sqrt (by norm_num)
  have hs2 : Real.sqrt 2 ≠ 0 := by positivity
  have e : 2 * (3 / (2 * Real.sqrt 2) * (cornerAngle / (nCorner r : ℝ))) ^ 2
      = 9 / 4 * (cornerAngle / (nCorner r : ℝ)) ^ 2 := by
    rw [mul_pow, div_pow, mul_pow, h2]; ring
  rw [e]
  linarith

/-- the spherified-corner mesh is defined for every `r > 0` with `⌈arctan(√2)/(r·π/180)⌉ ≥ 1` steps -/
theorem spherified_corner_defined (r : ℝ) (hr : 0 < r) :
    ∃ m, cubeMesh r .spherifiedCorner = .ok m ∧ 1 ≤ m.steps := by
  refine ⟨{ steps := nCorner r, edge := edgeOf (nCorner r) (cornerFn r),
            vectors := (cubePoints (edgeOf (nCorner r) (cornerFn r))).map Vec3.unit },
    by simp only [cubeMesh, edgeGrid_spherifiedCorner_real], ?_⟩
  have := nCorner_pos hr; simp only; omega


/-! ## 5. SO(3): the deterministic grids of the methods "quaternion" and "haar_euler" cover SO(3)

`uniform_SO3_sample(r, method)` before `unique()` (model `OrixModel/SO3Sampling.lean`, tied to the code by the correspondence
sites `so3_quat_grid` / `so3_euler_grid`).  For every unit quaternion `p` (every rotation) the grid holds a quaternion `q`
with `|p·q|` at least the stated bound, i.e. the rotation angle `2 arccos |p·q|` between them is at most `2 arccos(bound)`.
The radial Hopf coordinate is sampled uniformly in `u = sin²`, so the covering angle scales like `√r` near the poles
`u = 0, 1` (`≈ 2 arccos √(1 - 1/(2(n-1)))`), not like `r`: the bound below is what holds for ALL rotations; the typical
distance is of order `r`.  Fundamental-zone samples keep the grid rotations inside the zone only, and the cubochoric method
is not modelled: for those the covering radius is measured. -/

/-- `_resolution_to_num_steps` over ℝ -/
theorem so3_num_steps (r : ℝ) (hr : r ≠ 0) (e o : Bool) :
    numSteps r e o = .ok (if (e && ⌈360 / r⌉ % 2 == 1) || (o && ⌈360 / r⌉ % 2 == 0) then ⌈360 / r⌉ + 1 else ⌈360 / r⌉) := by
  simp [numSteps, hr]

/-- at least two steps for every resolution `0 < r ≤ 180` -/
theorem so3_two_le_ceil (r : ℝ) (hr : 0 < r) (hr' : r ≤ 180) : 2 ≤ ⌈360 / r⌉ := by
  have : (2 : ℝ) ≤ 360 / r := by rw [le_div_iff₀ hr]; linarith
  have h2 : ((2 : ℤ) : ℝ) ≤ (⌈360 / r⌉ : ℝ) := by push_cast; exact le_trans this (Int.le_ceil _)
  exact_mod_cast h2

/-- NO ERROR, COUNT: for `r > 0` the "quaternion" grid is defined and has `⌈360/r⌉³` rotations -/
theorem so3_quaternion_defined (r : ℝ) (hr : 0 < r) :
    quatMethod r = .ok (quatGrid ⌈360 / r⌉.toNat) ∧ (quatGrid ⌈360 / r⌉.toNat : List (Quat ℝ)).length = ⌈360 / r⌉.toNat ^ 3 := by
  have hpos : 0 < ⌈360 / r⌉ := Int.ceil_pos.mpr (by positivity)
  constructor
  · simp only [quatMethod, so3_num_steps r hr.ne']
    simp [not_lt.mpr hpos.le]
  · simp [quatGrid, quatU1, quatU23, List.length_flatMap, linspace_length, pow_succ]
    ring

/-- UNIT: every quaternion of the "quaternion" grid is a unit quaternion -/
theorem so3_quaternion_unit (n : ℕ) (hn : 2 ≤ n) : ∀ q ∈ (quatGrid n : List (Quat ℝ)), Quat.normSq q = 1 := by
  intro q hq
  unfold quatGrid quatU1 quatU23 at hq
  simp only [List.mem_flatMap, List.mem_map, mem_linspace] at hq
  obtain ⟨u2, ⟨k2, hk2, rfl⟩, u1, ⟨i, hi, rfl⟩, u3, ⟨k3, hk3, rfl⟩, rfl⟩ := hq
  rw [quatU1_at n hn i hi]
  have hnr : (2 : ℝ) ≤ n := by exact_mod_cast hn
  have hn1 : (0 : ℝ) < (n : ℝ) - 1 := by linarith
  have h0 : 0 ≤ (i : ℝ) * (1 / ((n : ℝ) - 1)) := by positivity
  have h1 : (i : ℝ) * (1 / ((n : ℝ) - 1)) ≤ 1 := by
    rw [mul_one_div, div_le_one hn1]
    have : (i : ℝ) + 1 ≤ n := by exact_mod_cast hi
    linarith
  generalize linspaceAt (lit 0 : ℝ) (lit 1) n false k2 = t2
  generalize linspaceAt (lit 0 : ℝ) (lit 1) n false k3 = t3
  have := three_uniform_unit _ (2 * Real.pi * t2) (2 * Real.pi * t3) h0 h1
  simp only [quatPoint, Quat.normSq, lit_real, sqrt_real, sin_real, cos_real, pi_real, Nat.cast_one, Nat.cast_ofNat]
  linear_combination this

/-- COVERING OF SO(3), method "quaternion", in the number of steps: for `0 < r ≤ 180°` every rotation `p` has a grid
rotation `q` with `p·q ≥ cos(π/n) √(1 - 1/(2(n-1)))`, `n = ⌈360/r⌉` -/
theorem so3_quaternion_covers (r : ℝ) (hr : 0 < r) (hr' : r ≤ 180) (qs : List (Quat ℝ)) (hok : quatMethod r = .ok qs)
    (p : Quat ℝ) (hp : Quat.normSq p = 1) :
    ∃ q ∈ qs, Real.cos (Real.pi / (⌈360 / r⌉ : ℝ)) * Real.sqrt (1 - 1 / (2 * ((⌈360 / r⌉ : ℝ) - 1))) ≤ Quat.dot p q := by
  rw [(so3_quaternion_defined r hr).1] at hok
  cases hok
  have h2 := so3_two_le_ceil r hr hr'
  have hcast : ((⌈360 / r⌉.toNat : ℕ) : ℝ) = (⌈360 / r⌉ : ℝ) := by
    have : ((⌈360 / r⌉.toNat : ℕ) : ℤ) = ⌈360 / r⌉ := Int.toNat_of_nonneg (by omega)
    exact_mod_cast this
  have := quat_grid_cover ⌈360 / r⌉.toNat (by omega) p hp
  rw [hcast] at this
  exact this

/-- … and in the resolution alone: `p·q ≥ cos(r·π/360) √(1 - r/(2(360 - r)))` (half the resolution in each of the two
angular coordinates, half a step of the radial coordinate) -/
theorem so3_quaternion_covers_resolution (r : ℝ) (hr : 0 < r) (hr' : r ≤ 180) (qs : List (Quat ℝ))
    (hok : quatMethod r = .ok qs) (p : Quat ℝ) (hp : Quat.normSq p = 1) :
    ∃ q ∈ qs, Real.cos (r * Real.pi / 360) * Real.sqrt (1 - r / (2 * (360 - r))) ≤ Quat.dot p q := by
  obtain ⟨q, hq, hb⟩ := so3_quaternion_covers r hr hr' qs hok p hp
  refine ⟨q, hq, le_trans ?_ hb⟩
  have h2 := so3_two_le_ceil r hr hr'
  have hn : (360 : ℝ) / r ≤ (⌈360 / r⌉ : ℝ) := Int.le_ceil _
  have hn2 : (2 : ℝ) ≤ (⌈360 / r⌉ : ℝ) := by exact_mod_cast h2
  have hq0 : (0 : ℝ) < 360 / r := by positivity
  -- π/n ≤ rπ/360
  have hang : Real.pi / (⌈360 / r⌉ : ℝ) ≤ r * Real.pi / 360 := by
    rw [div_le_iff₀ (by linarith)]
    have : r * Real.pi / 360 * (360 / r) = Real.pi := by field_simp
    calc Real.pi = r * Real.pi / 360 * (360 / r) := this.symm
      _ ≤ r * Real.pi / 360 * (⌈360 / r⌉ : ℝ) := by
        apply mul_le_mul_of_nonneg_left hn; positivity
  have hcos : Real.cos (r * Real.pi / 360) ≤ Real.cos (Real.pi / (⌈360 / r⌉ : ℝ)) := by
    apply Real.cos_le_cos_of_nonneg_of_le_pi (by positivity) _ hang
    have : r * Real.pi / 360 ≤ 180 * Real.pi / 360 := by
      apply div_le_div_of_nonneg_right _ (by norm_num)
      exact mul_le_mul_of_nonneg_right hr' Real.pi_pos.le
    linarith [Real.pi_pos]
  have hcos0 : 0 ≤ Real.cos (r * Real.pi / 360) := by
    apply Real.cos_nonneg_of_neg_pi_div_two_le_of_le
    · have : 0 ≤ r * Real.pi / 360 := by positivity
      linarith [Real.pi_pos]
    · have : r * Real.pi / 360 ≤ 180 * Real.pi / 360 := by
        apply div_le_div_of_nonneg_right _ (by norm_num)
        exact mul_le_mul_of_nonneg_right hr' Real.pi_pos.le
      linarith [Real.pi_pos]
  have hsq : Real.sqrt (1 - r / (2 * (360 - r))) ≤ Real.sqrt (1 - 1 / (2 * ((⌈360 / r⌉ : ℝ) - 1))) := by
    apply Real.sqrt_le_sqrt
    have h360 : (0 : ℝ) < 360 - r := by linarith
    have hn1 : (0 : ℝ) < (⌈360 / r⌉ : ℝ) - 1 := by linarith
    have : 1 / (2 * ((⌈360 / r⌉ : ℝ) - 1)) ≤ r / (2 * (360 - r)) := by
      rw [div_le_div_iff₀ (by positivity) (by positivity)]
      have : 360 ≤ r * (⌈360 / r⌉ : ℝ) := by
        have := (div_le_iff₀ hr).mp hn; linarith
      nlinarith
    linarith
  exact mul_le_mul hcos hsq (Real.sqrt_nonneg _) (le_trans hcos0 hcos)

/-- the same as a rotation angle: the misorientation angle `2 arccos |p·q|` to the nearest grid rotation is at most
`2 arccos (cos(r·π/360) √(1 - r/(2(360 - r))))` -/
theorem so3_quaternion_covering_angle (r : ℝ) (hr : 0 < r) (hr' : r ≤ 180) (qs : List (Quat ℝ))
    (hok : quatMethod r = .ok qs) (p : Quat ℝ) (hp : Quat.normSq p = 1) :
    ∃ q ∈ qs, 2 * Real.arccos |Quat.dot p q| ≤ 2 * Real.arccos (Real.cos (r * Real.pi / 360) * Real.sqrt (1 - r / (2 * (360 - r)))) := by
  obtain ⟨q, hq, hb⟩ := so3_quaternion_covers_resolution r hr hr' qs hok p hp
  exact ⟨q, hq, by linarith [Real.arccos_le_arccos (le_trans hb (le_abs_self _))]⟩

/-- NO ERROR, COUNT: for `r > 0` the "haar_euler" grid is defined, with an even number `n` of steps in `α`, `γ` and `n/2`
steps in `cos β`: `n²·(n/2)` rotations -/
theorem so3_euler_defined (r : ℝ) (hr : 0 < r) :
    ∃ n : ℕ, Even n ∧ ((n : ℤ) = ⌈360 / r⌉ ∨ (n : ℤ) = ⌈360 / r⌉ + 1) ∧ eulerMethod r = .ok (eulerGrid n (n / 2))
      ∧ (eulerGrid n (n / 2) : List (Quat ℝ)).length = n * n * (n / 2) := by
  have hpos : 0 < ⌈360 / r⌉ := Int.ceil_pos.mpr (by positivity)
  have hlen : ∀ n : ℕ, (eulerGrid n (n / 2) : List (Quat ℝ)).length = n * n * (n / 2) := by
    intro n
    simp [eulerGrid, eulerTriplets, eulerAlpha, eulerBeta, List.length_flatMap, linspace_length]
    ring
  rcases Int.emod_two_eq_zero_or_one ⌈360 / r⌉ with h0 | h1
  · refine ⟨⌈360 / r⌉.toNat, ?_, Or.inl (Int.toNat_of_nonneg hpos.le), ?_, hlen _⟩
    · have : Even ⌈360 / r⌉ := Int.even_iff.mpr h0
      rcases this with ⟨k, hk⟩
      exact ⟨k.toNat, by omega⟩
    · simp only [eulerMethod, so3_num_steps r hr.ne', h0]
      simp [not_lt.mpr hpos.le]
  · refine ⟨(⌈360 / r⌉ + 1).toNat, ?_, Or.inr (Int.toNat_of_nonneg (by omega)), ?_, hlen _⟩
    · have : Odd ⌈360 / r⌉ := Int.odd_iff.mpr h1
      rcases this with ⟨k, hk⟩
      exact ⟨(k + 1).toNat, by omega⟩
    · simp only [eulerMethod, so3_num_steps r hr.ne', h1]
      have : ¬ (⌈360 / r⌉ + 1 < 0) := by omega
      simp [this]

/-- COVERING OF SO(3), method "haar_euler": for `0 < r ≤ 180°` every rotation `p` has a grid rotation `q` with
`|p·q| ≥ cos(r·π/360) √(1 - r/180)` -/
theorem so3_euler_covers_resolution (r : ℝ) (hr : 0 < r) (hr' : r ≤ 180) (qs : List (Quat ℝ))
    (hok : eulerMethod r = .ok qs) (p : Quat ℝ) (hp : Quat.normSq p = 1) :
    ∃ q ∈ qs, Real.cos (r * Real.pi / 360) * Real.sqrt (1 - r / 180) ≤ |Quat.dot p q| := by
  obtain ⟨n, hev, hn, hdef, -⟩ := so3_euler_defined r hr
  rw [hdef] at hok
  cases hok
  have h2 := so3_two_le_ceil r hr hr'
  have hn2 : 2 ≤ n := by rcases hn with h | h <;> omega
  obtain ⟨k, hk⟩ := hev
  have hh : n / 2 = k := by omega
  have hk1 : 1 ≤ k := by omega
  obtain ⟨q, hq, hb⟩ := euler_grid_cover n (n / 2) hn2 (by omega) p hp
  refine ⟨q, hq, le_trans ?_ hb⟩
  have hceil : (360 : ℝ) / r ≤ (⌈360 / r⌉ : ℝ) := Int.le_ceil _
  have hnr : (360 : ℝ) / r ≤ (n : ℝ) := by
    rcases hn with h | h
    · have : (n : ℝ) = (⌈360 / r⌉ : ℝ) := by exact_mod_cast h
      linarith
    · have : (n : ℝ) = (⌈360 / r⌉ : ℝ) + 1 := by exact_mod_cast h
      linarith
  have hnpos : (0 : ℝ) < n := by
    have : (2 : ℝ) ≤ n := by exact_mod_cast hn2
    linarith
  have hang : Real.pi / (n : ℝ) ≤ r * Real.pi / 360 := by
    rw [div_le_iff₀ hnpos]
    have : r * Real.pi / 360 * (360 / r) = Real.pi := by field_simp
    calc Real.pi = r * Real.pi / 360 * (360 / r) := this.symm
      _ ≤ r * Real.pi / 360 * (n : ℝ) := by
        apply mul_le_mul_of_nonneg_left hnr; positivity
  have hle : r * Real.pi / 360 ≤ Real.pi / 2 := by
    have : r * Real.pi / 360 ≤ 180 * Real.pi / 360 := by
      apply div_le_div_of_nonneg_right _ (by norm_num)
      exact mul_le_mul_of_nonneg_right hr' Real.pi_pos.le
    linarith [Real.pi_pos]
  have hcos : Real.cos (r * Real.pi / 360) ≤ Real.cos (Real.pi / (n : ℝ)) :=
    Real.cos_le_cos_of_nonneg_of_le_pi (by positivity) (by linarith [Real.pi_pos]) hang
  have hcos0 : 0 ≤ Real.cos (r * Real.pi / 360) :=
    Real.cos_nonneg_of_neg_pi_div_two_le_of_le (by have : 0 ≤ r * Real.pi / 360 := by positivity
                                                   linarith [Real.pi_pos]) hle
  have hsq : Real.sqrt (1 - r / 180) ≤ Real.sqrt (1 - 1 / ((n / 2 : ℕ) : ℝ)) := by
    apply Real.sqrt_le_sqrt
    rw [hh]
    have hkr : (n : ℝ) = 2 * (k : ℝ) := by
      have : n = 2 * k := by omega
      exact_mod_cast this
    have hkpos : (0 : ℝ) < k := by exact_mod_cast hk1
    have : 1 / (k : ℝ) ≤ r / 180 := by
      rw [div_le_div_iff₀ hkpos (by norm_num)]
      have : 360 ≤ r * (n : ℝ) := by
        have := (div_le_iff₀ hr).mp hnr; linarith
      rw [hkr] at this
      linarith
    linarith
  exact mul_le_mul hcos hsq (Real.sqrt_nonneg _) (le_trans hcos0 hcos)

/-- as a rotation angle -/
theorem so3_euler_covering_angle (r : ℝ) (hr : 0 < r) (hr' : r ≤ 180) (qs : List (Quat ℝ))
    (hok : eulerMethod r = .ok qs) (p : Quat ℝ) (hp : Quat.normSq p = 1) :
    ∃ q ∈ qs, 2 * Real.arccos |Quat.dot p q| ≤ 2 * Real.arccos (Real.cos (r * Real.pi / 360) * Real.sqrt (1 - r / 180)) := by
  obtain ⟨q, hq, hb⟩ := so3_euler_covers_resolution r hr hr' qs hok p hp
  exact ⟨q, hq, by linarith [Real.arccos_le_arccos hb]⟩

/-- UNIT: every quaternion of the "haar_euler" grid is a unit quaternion with non-negative scalar part -/
theorem so3_euler_unit (n h : ℕ) : ∀ q ∈ (eulerGrid n h : List (Quat ℝ)), Quat.normSq q = 1 ∧ 0 ≤ q.a := by
  intro q hq
  unfold eulerGrid at hq
  obtain ⟨e, -, rfl⟩ := List.mem_map.mp hq
  exact ⟨eu2qu_unit e, eu2qu_scalar_nonneg e⟩

/-! non-vacuity -/
example : (([3, 1, 3, 2, 5] : List Nat).filter (fun n => decide (n < 4))).dedup = [1, 3, 2] := by decide

/-- the hypotheses of the UV theorems hold at `r = 7.5°`: 48 azimuth lines, 25 polar lines, and the covering bound
`(7.5·π/180)²/2` for the mesh `sample_S2(7.5, "uv")` returns -/
example : nAz 7.5 = 48 ∧ nPol 7.5 = 24 := by
  have e1 : (360 : ℝ) / 7.5 = ((48 : ℤ) : ℝ) := by norm_num
  have e2 : (180 : ℝ) / 7.5 = ((24 : ℤ) : ℝ) := by norm_num
  constructor
  · unfold nAz; rw [e1, Int.ceil_intCast]; rfl
  · unfold nPol; rw [e2, Int.ceil_intCast]; rfl
example : ∃ vs, uvMesh (7.5 : ℝ) .both 0 true = .ok vs ∧
    ∀ v, Vec3.normSq v = 1 → ∃ g ∈ vs, Vec3.normSq (Vec3.sub v g) ≤ (7.5 * Real.pi / 180) ^ 2 / 2 := by
  obtain ⟨vs, h⟩ := uv_mesh_defined 7.5 (by norm_num) .both 0 (le_refl _) (by norm_num) true
  exact ⟨vs, h, fun v hv => uv_mesh_covers_sphere 7.5 (by norm_num) true vs h v hv⟩
/-- and of the cube theorem at `r = 45°`: `tan 45° = 1`, one step, 26 vectors -/
example : nEA 10 = 9 ∧ nEA 7.5 = 12 := by
  have e1 : (90 : ℝ) / 10 = ((9 : ℤ) : ℝ) := by norm_num
  have e2 : (90 : ℝ) / 7.5 = ((12 : ℤ) : ℝ) := by norm_num
  constructor
  · unfold nEA; rw [e1, Int.ceil_intCast]; rfl
  · unfold nEA; rw [e2, Int.ceil_intCast]; rfl

example : ∃ vs, eaMesh (10 : ℝ) .both false = .ok vs ∧ vs.length = 36 * 19 := by
  obtain ⟨vs, h⟩ := equal_area_mesh_defined 10 (by norm_num) .both false
  refine ⟨vs, h, ?_⟩
  have e1 : (90 : ℝ) / 10 = ((9 : ℤ) : ℝ) := by norm_num
  have h9 : nEA 10 = 9 := by unfold nEA; rw [e1, Int.ceil_intCast]; rfl
  rw [equal_area_grid_count 10 (by norm_num) vs h, h9]

example : ∃ m, cubeMesh (45 : ℝ) .normalized = .ok m ∧ m.steps = 1 ∧ m.vectors.length = 26 := by
  obtain ⟨m, hm, hs, -, -⟩ := normalized_cube_defined 45 (by norm_num) (by norm_num)
  have ht : Real.tan ((45 : ℝ) * (Real.pi / 180)) = 1 := by
    rw [show (45 : ℝ) * (Real.pi / 180) = Real.pi / 4 by ring, Real.tan_pi_div_four]
  have h1 : m.steps = 1 := by rw [hs, ht]; norm_num
  exact ⟨m, hm, h1, (cube_mesh_count_pos 45 .normalized m hm 1 (by rw [h1]; rfl)).trans (by norm_num)⟩
/-- the SO(3) covering hypotheses hold at `r = 10°`: 36 steps, 36³ rotations, and some grid rotation within the bound of the
identity -/
example : ∃ qs, quatMethod (10 : ℝ) = .ok qs ∧ qs.length = 36 ^ 3 ∧
    ∃ q ∈ qs, Real.cos (10 * Real.pi / 360) * Real.sqrt (1 - 10 / (2 * (360 - 10))) ≤ Quat.dot ⟨1, 0, 0, 0⟩ q := by
  have e : (360 : ℝ) / 10 = ((36 : ℤ) : ℝ) := by norm_num
  obtain ⟨h1, h2⟩ := so3_quaternion_defined 10 (by norm_num)
  rw [e, Int.ceil_intCast] at h1 h2
  exact ⟨_, h1, h2, so3_quaternion_covers_resolution 10 (by norm_num) (by norm_num) _ h1 ⟨1, 0, 0, 0⟩ (by simp [Quat.normSq])⟩

end Orix.C19
