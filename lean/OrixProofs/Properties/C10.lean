import OrixProofs.Lemmas.Orbit
import OrixProofs.Properties.C03
import OrixModel.Orbit
import OrixProofs.Lemmas.MillerRoundPrim
import OrixProofs.Lemmas.MillerAngle
/-
C10 — Miller symmetry operations enumerate true orbits.

For any action of a finite matrix group (a group list, C03) on any vector type: `symmetrise` is the list of images
under all operations; with `unique=True` the multiplicity of a vector is its number of distinct images, it divides
the group order (orbit–stabiliser), the vectors are listed grouped in input order with a matching index array;
`unique(use_symmetry=True)` keeps exactly one vector per orbit; orbit equality is "one is an image of the other".
Instantiated for every regenerated point-group table acting on integer lattice indices.
`Miller.round` (`_round_indices`, model `MillerRound.lean`): multiples of a primitive triplet come back as that triplet
(A1, largest index ≤ 51; proved counter-example at 52; spec without the 1e-7 error grid: no bound), what is returned for
arbitrary real input (A2), Miller–Bravais quartets (A3).  `angle_with(use_symmetry=True)` (model `angleWithSym`): it is the
minimum over the images, invariant under images of either argument, plain angle for the trivial group (B1).
The 1e-10 rounding of near-duplicates (also of the images `angle_with` uses) and floating-point rounding are outside the
theorems and compared on the implementation.
-/
namespace Orix.C10
open Orix Orix.Grp Orix.Orb Orix.Gen Orix.MillerRound Scalar

variable {X : Type} [DecidableEq X]

theorem mem_dedupFirst : ∀ {l : List X} {x : X}, x ∈ dedupFirst l ↔ x ∈ l
  | [], _ => by simp [dedupFirst]
  | a :: l, x => by
    simp only [dedupFirst, List.mem_cons, List.mem_filter, mem_dedupFirst (l := l), Bool.not_eq_true',
      decide_eq_false_iff_not]
    constructor
    · rintro (h | ⟨h, _⟩)
      · exact Or.inl h
      · exact Or.inr h
    · rintro (h | h)
      · exact Or.inl h
      · by_cases e : x = a
        · exact Or.inl e
        · exact Or.inr ⟨h, e⟩

theorem nodup_dedupFirst : ∀ l : List X, (dedupFirst l).Nodup
  | [] => by simp [dedupFirst]
  | a :: l => by
    rw [dedupFirst, List.nodup_cons]
    refine ⟨?_, (nodup_dedupFirst l).filter _⟩
    intro h
    have := (List.mem_filter.mp h).2
    simp at this

theorem idx_length (gs : List (List X)) : ∀ k : Nat,
    (((gs.zipIdx k).map fun p => List.replicate p.1.length p.2).flatten).length = gs.flatten.length := by
  induction gs with
  | nil => intro k; simp
  | cons g gs ih => intro k; simp [List.zipIdx_cons, ih (k + 1)]

/-- `symmetrise` returns exactly the images of the vector under all group operations -/
theorem symmetrise_is_images (act : M3 → X → X) (L : List M3) (v w : X) :
    w ∈ images act L v ↔ ∃ g ∈ L, act g v = w := by
  simp [images, List.mem_map]

/-- the distinct images, without repetition -/
theorem distinct_images (act : M3 → X → X) (L : List M3) (v : X) :
    (dedupFirst (images act L v)).Nodup ∧ ∀ w, w ∈ dedupFirst (images act L v) ↔ ∃ g ∈ L, act g v = w :=
  ⟨nodup_dedupFirst _, fun w => by rw [mem_dedupFirst, symmetrise_is_images]⟩

/-- the multiplicity is the number of distinct images -/
theorem multiplicity_eq_orbit_card (act : M3 → X → X) (L : List M3) (v : X) :
    (dedupFirst (images act L v)).length = (orbitF act L v).card := by
  rw [← List.toFinset_card_of_nodup (nodup_dedupFirst _)]
  congr 1
  ext w
  simp [orbitF, mem_dedupFirst, images]

/-- ORBIT–STABILISER: multiplicity · |stabiliser| = group order; in particular the multiplicity divides it -/
theorem multiplicity_divides_order (act : M3 → X → X) (act_mul : ∀ a b x, act (a.mul b) x = act a (act b x))
    (act_one : ∀ x, act M3.one x = x) {L : List M3} (hL : IsGroupList L) (v : X) :
    (dedupFirst (images act L v)).length ∣ L.length := by
  rw [multiplicity_eq_orbit_card]
  exact multiplicity_dvd_order act act_mul act_one hL v

/-- LAYOUT of `symmetrise(unique=True, return_multiplicity=True, return_index=True)`: the vectors are the distinct
images grouped in input order; there is one multiplicity per input vector, equal to the size of its group; the index
array has one entry per returned vector. -/
theorem symmetriseUnique_layout (act : M3 → X → X) (L : List M3) (vs : List X) :
    (symmetriseUnique act L vs).1 = (vs.map fun v => dedupFirst (images act L v)).flatten ∧
    (symmetriseUnique act L vs).2.1 = vs.map (fun v => (dedupFirst (images act L v)).length) ∧
    (symmetriseUnique act L vs).2.1.length = vs.length ∧
    (symmetriseUnique act L vs).2.2.length = (symmetriseUnique act L vs).1.length := by
  refine ⟨rfl, ?_, ?_, ?_⟩
  · simp [symmetriseUnique, List.map_map, Function.comp_def]
  · simp [symmetriseUnique]
  · simp only [symmetriseUnique]
    exact idx_length _ 0

/-- every returned vector is a distinct image of the input vector its index points to: stated per group -/
theorem symmetriseUnique_groups (act : M3 → X → X) (L : List M3) (vs : List X) (i : Nat) (v : X)
    (hv : vs[i]? = some v) :
    ((vs.map fun v => dedupFirst (images act L v))[i]?) = some (dedupFirst (images act L v)) := by
  simp [List.getElem?_map, hv]

/-- `unique(use_symmetry=True)`: every input vector is in the orbit of a kept vector -/
theorem uniqueSym_cover (act : M3 → X → X) (act_mul : ∀ a b x, act (a.mul b) x = act a (act b x))
    (act_one : ∀ x, act M3.one x = x) {L : List M3} (hL : IsGroupList L) :
    ∀ (vs : List X) (v : X), v ∈ vs → ∃ u ∈ uniqueSym act L vs, sameOrbit act L v u = true
  | [], _, h => by cases h
  | a :: vs, v, h => by
    rcases List.mem_cons.mp h with rfl | h'
    · refine ⟨v, by simp [uniqueSym], ?_⟩
      simp only [sameOrbit, List.any_eq_true, decide_eq_true_eq]
      exact ⟨M3.one, hL.one_mem, act_one v⟩
    · obtain ⟨u, hu, huv⟩ := uniqueSym_cover act act_mul act_one hL vs v h'
      by_cases hua : sameOrbit act L u a = true
      · -- u is dropped because it is in the orbit of a: then v is in the orbit of a too
        refine ⟨a, by simp [uniqueSym], ?_⟩
        simp only [sameOrbit, List.any_eq_true, decide_eq_true_eq] at huv hua ⊢
        obtain ⟨g, hg, hgv⟩ := huv
        obtain ⟨k, hk, hka⟩ := hua
        exact ⟨g.mul k, hL.mul_mem g hg k hk, by rw [act_mul, hka, hgv]⟩
      · refine ⟨u, ?_, huv⟩
        simp only [uniqueSym, List.mem_cons, List.mem_filter, Bool.not_eq_true']
        right
        exact ⟨hu, by simpa using hua⟩

/-- … and no two kept vectors are in the same orbit -/
theorem uniqueSym_one_per_orbit (act : M3 → X → X) (L : List M3) :
    ∀ vs : List X, (uniqueSym act L vs).Pairwise fun u w => sameOrbit act L w u = false
  | [] => by simp [uniqueSym]
  | a :: vs => by
    simp only [uniqueSym, List.pairwise_cons, List.mem_filter, Bool.not_eq_true']
    exact ⟨fun w hw => hw.2, (uniqueSym_one_per_orbit act L vs).filter _⟩

/-- two vectors have the same set of images iff one is an image of the other (key equality ⇔ same orbit) -/
theorem same_key_iff_same_orbit (act : M3 → X → X) (act_mul : ∀ a b x, act (a.mul b) x = act a (act b x))
    (act_one : ∀ x, act M3.one x = x) {L : List M3} (hL : IsGroupList L) (x y : X) :
    orbitF act L x = orbitF act L y ↔ ∃ g ∈ L, act g x = y := by
  rw [orbit_eq_iff act act_mul act_one hL]
  simp [orbitF, List.mem_map]

/-! ### instantiated for the regenerated point-group tables acting on integer indices -/

/-- For every point-group object, in every lattice basis in which it is given, and every integer index triplet: the
multiplicity divides the order of the group. -/
theorem table_multiplicity_divides {r : GroupRec} (hr : r ∈ PG.all) (b : Basis) {L : List M3}
    (hL : r.ops b = some L) (v : Z3) : (dedupFirst (images M3.act L v)).length ∣ r.order := by
  have hf := C03.group_facts hr b hL
  rw [← hf.order]
  exact multiplicity_divides_order M3.act act_mul_Z3 act_one_Z3 hf.group v

/-! non-vacuity: the general direction (1,2,3) has 48 distinct images under m-3m, (1,0,0) has 6 -/
example : (dedupFirst (images M3.act ((PG.g37.ops .cub).getD []) ⟨1, 2, 3⟩)).length = 48 := by decide +kernel
example : (dedupFirst (images M3.act ((PG.g37.ops .cub).getD []) ⟨1, 0, 0⟩)).length = 6 := by decide +kernel

/-! ## `Miller.round` (`_round_indices`, model `OrixModel/MillerRound.lean`) -/

/-- A1. ROUNDING RECOVERS THE PRIMITIVE VECTOR.  For every integer triplet `w` with coprime indices whose largest
absolute index `M` is at most `max_index` and at most 51, and every real `t ≠ 0`: `_round_indices(t·w) = sign(t)·w`. -/
theorem round_recovers_primitive {w : Z3} (hw : Primitive w) {maxIndex : ℕ} (hmax : maxAbsZ w ≤ maxIndex)
    (h51 : maxAbsZ w ≤ 51) {t : ℝ} (ht : t ≠ 0) :
    roundIndices maxIndex (smulZ t w) = .ok (if 0 < t then w else Z3.neg w) := by
  rcases lt_or_gt_of_ne ht with h | h
  · rw [if_neg (not_lt.mpr h.le), smulZ_neg]
    exact roundIndices_smulZ_pos (primitive_neg hw) (neg_pos.mpr h) (by rwa [maxAbsZ_neg]) (by rwa [maxAbsZ_neg])
  · rw [if_pos h]
    exact roundIndices_smulZ_pos hw h hmax h51

/-- … in words of the property: the result is an integer triplet with coprime indices, parallel to the input and pointing
the same way (`input = |t| · result`) -/
theorem round_result_parallel_coprime {w : Z3} (hw : Primitive w) {maxIndex : ℕ} (hmax : maxAbsZ w ≤ maxIndex)
    (h51 : maxAbsZ w ≤ 51) {t : ℝ} (ht : t ≠ 0) :
    ∃ r, roundIndices maxIndex (smulZ t w) = .ok r ∧ Primitive r ∧ smulZ t w = smulZ |t| r := by
  refine ⟨_, round_recovers_primitive hw hmax h51 ht, ?_, ?_⟩
  · split
    · exact hw
    · exact primitive_neg hw
  · rcases lt_or_gt_of_ne ht with h | h
    · rw [if_neg (not_lt.mpr h.le), abs_of_neg h]; exact smulZ_neg t w
    · rw [if_pos h, abs_of_pos h]

/-- the first-minimum rule behind A1: multiplier `M` has error 0 and every earlier multiplier has a strictly positive error
on the 1e-7 grid, so `argmin` (first minimum) selects `M` -/
theorem round_first_minimum {w : Z3} (hw : Primitive w) {maxIndex : ℕ} (hmax : maxAbsZ w ≤ maxIndex)
    (h51 : maxAbsZ w ≤ 51) {t : ℝ} (ht : 0 < t) :
    err (smulZ t w) (maxAbs3 (smulZ t w)) (maxAbsZ w) = 0 ∧
    (∀ m, 1 ≤ m → m < maxAbsZ w → 0 < err (smulZ t w) (maxAbs3 (smulZ t w)) m) ∧
    bestMultiplier maxIndex (smulZ t w) = .ok (maxAbsZ w) := by
  have hmx : maxAbs3 (smulZ t w) = t * maxAbsZ w := by rw [maxAbs3_smulZ, abs_of_pos ht]
  rw [hmx]
  exact ⟨err_eq_zero_of_relErr_lt (by rw [relErr_at_max hw ht]; norm_num),
    fun m h1 h2 => err_pos_of_relErr_gt (relErr_gt_half hw ht h1 h2 h51), bestMultiplier_smulZ hw ht hmax h51⟩

/-- SPEC: with the exact error (no 1e-7 grid) the bound `M ≤ 51` is not needed -/
theorem round_recovers_primitive_spec {w : Z3} (hw : Primitive w) {maxIndex : ℕ} (hmax : maxAbsZ w ≤ maxIndex)
    {t : ℝ} (ht : t ≠ 0) :
    roundIndicesSpec maxIndex (smulZ t w) = .ok (if 0 < t then w else Z3.neg w) := by
  rcases lt_or_gt_of_ne ht with h | h
  · rw [if_neg (not_lt.mpr h.le), smulZ_neg]
    exact roundIndicesSpec_smulZ_pos (primitive_neg hw) (neg_pos.mpr h) (by rwa [maxAbsZ_neg])
  · rw [if_pos h]
    exact roundIndicesSpec_smulZ_pos hw h hmax

/-- COUNTER-EXAMPLE for the code-shaped model above 51 (finding C10-round-error-grid): for `w = (52, 52, 51)` (coprime,
all indices ≤ `max_index` when `max_index ≥ 52`) and every `t > 0`, `_round_indices(t·w, max_index ≥ 51)` selects a
multiplier ≤ 51 — multiplier 51 already has error 0 on the 1e-7 grid — and returns a triplet that is NOT parallel to the
input (first index in 1 … 51, and `r.x·51 ≠ r.z·52`). -/
theorem round_misses_primitive_52 {t : ℝ} (ht : 0 < t) {maxIndex : ℕ} (h : 51 ≤ maxIndex) :
    ∃ r, roundIndices maxIndex (smulZ t w52) = .ok r ∧ 1 ≤ r.x ∧ r.x ≤ 51 ∧ r.x * 51 ≠ r.z * 52 ∧ r ≠ w52 := by
  have hmx : maxAbs3 (smulZ t w52) = t * (52 : ℕ) := by rw [maxAbs3_smulZ, abs_of_pos ht, maxAbsZ_w52]
  have hne : maxAbs3 (smulZ t w52) ≠ 0 := by rw [hmx]; positivity
  obtain ⟨m, hb, h1, h2, -, hfirst⟩ := bestMultiplier_spec (by omega : 0 < maxIndex) hne
  have h51 : m ≤ 51 := by
    by_contra hc
    have := hfirst 51 (by norm_num) (by omega)
    rw [hmx, err_eq_zero_of_relErr_lt (relErr_w52 ht)] at this
    exact absurd this (not_lt.mpr (err_nonneg _ _ _))
  have hx : rintZ ((m : ℝ) / (t * (52 : ℕ)) * (smulZ t w52).x) = m := by
    have : (m : ℝ) / (t * (52 : ℕ)) * (smulZ t w52).x = ((m : ℤ) : ℝ) := by
      simp only [smulZ, w52]; push_cast; field_simp
    rw [this, rintZ_int]
  have hr := roundIndices_of_best hb
  rw [hmx] at hr
  refine ⟨_, hr, ?_⟩
  simp only [hx]
  refine ⟨by omega, by omega, by omega, ?_⟩
  intro hc
  have := congrArg Z3.x hc
  simp only [w52] at this
  omega

/-- A2. ARBITRARY REAL INPUT.  For every non-zero real triplet and `max_index ≥ 1` the result is the rounding of a POSITIVE
multiple `λ·v`, `λ = m / max|vᵢ|` with an integer multiplier `1 ≤ m ≤ max_index`; hence every index is an integer within 1/2
of `λ·vᵢ`, of absolute value at most `m ≤ max_index` (no slack), one index has absolute value exactly `m` (the result is
not the zero triplet), and no index has the opposite sign of the input's (same closed orthant). -/
theorem round_general {maxIndex : ℕ} (hn : 0 < maxIndex) {v : Vec3 ℝ} (hv : maxAbs3 v ≠ 0) :
    ∃ (m : ℕ) (r : Z3), 1 ≤ m ∧ m ≤ maxIndex ∧ roundIndices maxIndex v = .ok r ∧ 0 < (m : ℝ) / maxAbs3 v ∧
      r = ⟨rintZ ((m : ℝ) / maxAbs3 v * v.x), rintZ ((m : ℝ) / maxAbs3 v * v.y), rintZ ((m : ℝ) / maxAbs3 v * v.z)⟩ ∧
      (|(r.x : ℝ) - (m : ℝ) / maxAbs3 v * v.x| ≤ 1 / 2 ∧ |(r.y : ℝ) - (m : ℝ) / maxAbs3 v * v.y| ≤ 1 / 2 ∧
        |(r.z : ℝ) - (m : ℝ) / maxAbs3 v * v.z| ≤ 1 / 2) ∧
      (|r.x| ≤ m ∧ |r.y| ≤ m ∧ |r.z| ≤ m) ∧ (|r.x| = m ∨ |r.y| = m ∨ |r.z| = m) ∧
      (0 ≤ (r.x : ℝ) * v.x ∧ 0 ≤ (r.y : ℝ) * v.y ∧ 0 ≤ (r.z : ℝ) * v.z) := by
  obtain ⟨m, hb, h1, h2, -, -⟩ := bestMultiplier_spec hn hv
  have hmx : 0 < maxAbs3 v := lt_of_le_of_ne (maxAbs3_nonneg v) (Ne.symm hv)
  have hm : (0 : ℝ) < m := by exact_mod_cast h1
  have hl : 0 < (m : ℝ) / maxAbs3 v := div_pos hm hmx
  obtain ⟨ax, ay, az⟩ := abs_le_maxAbs3 v
  -- |λ x| ≤ m, with equality where |x| is the maximum
  have hb' : ∀ x : ℝ, |x| ≤ maxAbs3 v → |(m : ℝ) / maxAbs3 v * x| ≤ ((m : ℤ) : ℝ) := by
    intro x hx
    rw [abs_mul, abs_of_pos hl, div_mul_eq_mul_div, div_le_iff₀ hmx]
    push_cast
    exact mul_le_mul_of_nonneg_left hx hm.le
  have he : ∀ x : ℝ, |x| = maxAbs3 v → |rintZ ((m : ℝ) / maxAbs3 v * x)| = m := by
    intro x hx
    rcases abs_choice x with h | h
    · have : (m : ℝ) / maxAbs3 v * x = ((m : ℤ) : ℝ) := by
        rw [← h, hx]; push_cast; field_simp
      rw [this, rintZ_int]; simp
    · have : (m : ℝ) / maxAbs3 v * x = ((-(m : ℤ) : ℤ) : ℝ) := by
        have hx' : x = -maxAbs3 v := by rw [← hx, h]; ring
        rw [hx']; push_cast; field_simp
      rw [this, rintZ_int]; simp
  have hs : ∀ x : ℝ, 0 ≤ (rintZ ((m : ℝ) / maxAbs3 v * x) : ℝ) * x := by
    intro x
    have := rintZ_mul_nonneg ((m : ℝ) / maxAbs3 v * x)
    have h3 : (rintZ ((m : ℝ) / maxAbs3 v * x) : ℝ) * ((m : ℝ) / maxAbs3 v * x)
        = (m : ℝ) / maxAbs3 v * ((rintZ ((m : ℝ) / maxAbs3 v * x) : ℝ) * x) := by ring
    rw [h3] at this
    exact nonneg_of_mul_nonneg_right this hl
  refine ⟨m, _, h1, h2, roundIndices_of_best hb, hl, rfl, ⟨rintZ_close _, rintZ_close _, rintZ_close _⟩,
    ⟨rintZ_abs_le (hb' _ ax), rintZ_abs_le (hb' _ ay), rintZ_abs_le (hb' _ az)⟩, ?_, ⟨hs _, hs _, hs _⟩⟩
  rcases maxAbs3_attained v with h | h | h
  · exact Or.inl (he _ h)
  · exact Or.inr (Or.inl (he _ h))
  · exact Or.inr (Or.inr (he _ h))

/-- the two inputs outside the domain: the zero triplet (numpy: NaN errors, meaningless integers) and `max_index = 0`
(`np.argmin` of an empty sequence raises) are explicit errors of the model -/
theorem round_errors (maxIndex : ℕ) (v : Vec3 ℝ) :
    (maxAbs3 v = 0 → roundIndices maxIndex v = .error .zeroVector) ∧
    (maxAbs3 v ≠ 0 → roundIndices 0 v = .error .noMultiplier) := by
  constructor
  · intro h; simp only [roundIndices, roundIndicesBy, bestMultiplierBy_zero err h]
  · intro h; simp only [roundIndices, roundIndicesBy, bestMultiplierBy_noMultiplier err h]

/-! ### Miller–Bravais quartets -/

/-- A3 (i). DROPPING THE REDUNDANT INDEX COMMUTES WITH THE ROUNDING, for every input and every scalar type: indices 0, 1, 3
of the rounded quartet are the rounded triplet `(h, k, l)`; in particular `max_index` limits `h, k, l` only. -/
theorem round4_drop_commutes {α : Type} [Scalar α] [HasToInt α] (maxIndex : ℕ) (q : Vec4 α) :
    (roundIndices4 maxIndex q).map (fun r => (⟨r.x0, r.x1, r.x3⟩ : Z3)) = roundIndices maxIndex ⟨q.x0, q.x1, q.x3⟩ := by
  simp only [roundIndices4, roundIndices, roundIndicesBy, bestMultiplier]
  cases bestMultiplierBy err maxIndex (⟨q.x0, q.x1, q.x3⟩ : Vec3 α) <;> rfl

/-- A3 (ii). On multiples of a primitive quartet `(h, k, -(h+k), l)` (`gcd(h,k,l) = 1`, `max(|h|,|k|,|l|) ≤ min(max_index, 51)`)
the rounded quartet is `± (h, k, -(h+k), l)`: it satisfies the four-index convention, `Miller.round` accepts it, and REBUILDING
the redundant index from the first two gives the same quartet (rebuild ∘ round = round). -/
theorem round4_recovers_primitive {w : Z3} (hw : Primitive w) {maxIndex : ℕ} (hmax : maxAbsZ w ≤ maxIndex)
    (h51 : maxAbsZ w ≤ 51) {t : ℝ} (ht : t ≠ 0) :
    roundIndices4 maxIndex (smulZ4 t (quartetOf w)) = .ok (quartetOf (if 0 < t then w else Z3.neg w)) ∧
    millerRound4 maxIndex (smulZ4 t (quartetOf w)) = .ok (quartetOf (if 0 < t then w else Z3.neg w)) := by
  have pos : ∀ {w : Z3}, Primitive w → maxAbsZ w ≤ maxIndex → maxAbsZ w ≤ 51 → ∀ {t : ℝ}, 0 < t →
      roundIndices4 maxIndex (smulZ4 t (quartetOf w)) = .ok (quartetOf w) := by
    intro w hw hmax h51 t ht
    have hM := maxAbsZ_pos hw
    have hb : bestMultiplier maxIndex ⟨(smulZ4 t (quartetOf w)).x0, (smulZ4 t (quartetOf w)).x1,
        (smulZ4 t (quartetOf w)).x3⟩ = .ok (maxAbsZ w) := bestMultiplier_smulZ hw ht hmax h51
    have hmx : maxAbs3 ⟨(smulZ4 t (quartetOf w)).x0, (smulZ4 t (quartetOf w)).x1, (smulZ4 t (quartetOf w)).x3⟩
        = t * maxAbsZ w := by
      show maxAbs3 (smulZ t w) = _
      rw [maxAbs3_smulZ, abs_of_pos ht]
    rw [roundIndices4_of_best hb, hmx]
    simp only [smulZ4, quartetOf, roundOne_smul ht hM]
  have reb : ∀ w : Z3, rebuild4 (quartetOf w) = .ok (quartetOf w) := by
    intro w
    unfold rebuild4
    rw [if_pos (by simp [quartetOf])]
    rfl
  have key : roundIndices4 maxIndex (smulZ4 t (quartetOf w)) = .ok (quartetOf (if 0 < t then w else Z3.neg w)) := by
    rcases lt_or_gt_of_ne ht with h | h
    · rw [if_neg (not_lt.mpr h.le)]
      have e : smulZ4 t (quartetOf w) = smulZ4 (-t) (quartetOf (Z3.neg w)) := by
        simp only [smulZ4, quartetOf, Z3.neg]
        congr 1 <;> (push_cast; ring)
      rw [e]
      exact pos (primitive_neg hw) (by rwa [maxAbsZ_neg]) (by rwa [maxAbsZ_neg]) (neg_pos.mpr h)
    · rw [if_pos h]; exact pos hw hmax h51 h
  exact ⟨key, by rw [millerRound4, key]; exact reb _⟩

/-- A3 (iii). `max_index` does NOT limit the redundant index: `0.37 · (7, 8, -15, 1)` with `max_index = 8` rounds to
`(7, 8, -15, 1)`, whose third index is 15. -/
theorem round4_redundant_index_exceeds_max :
    millerRound4 8 (smulZ4 (37 / 100) (quartetOf ⟨7, 8, 1⟩)) = .ok ⟨7, 8, -15, 1⟩ := by
  have := (round4_recovers_primitive (w := ⟨7, 8, 1⟩) (maxIndex := 8) (by decide) (by decide) (by decide)
    (t := 37 / 100) (by norm_num)).2
  rwa [if_pos (by norm_num)] at this

/-- A3 (iv), `_partial`: for ARBITRARY real quartets with `i = -(h+k)` the four indices are rounded one by one, so the
rounded quartet satisfies `h + k + i = 0` only up to ±1 … -/
theorem round4_convention_defect_partial {maxIndex : ℕ} {q : Vec4 ℝ} (hq : q.x2 = -(q.x0 + q.x1)) {r : Vec4 ℤ}
    (h : roundIndices4 maxIndex q = .ok r) : |r.x0 + r.x1 + r.x2| ≤ 1 := by
  simp only [roundIndices4] at h
  split at h
  · cases h
  · rename_i m hb
    simp only [Except.ok.injEq] at h
    subst h
    simp only [roundOne_real]
    set l := (m : ℝ) / maxAbs3 ⟨q.x0, q.x1, q.x3⟩
    have h0 := abs_le.mp (rintZ_close (l * q.x0))
    have h1 := abs_le.mp (rintZ_close (l * q.x1))
    have h2 := abs_le.mp (rintZ_close (l * q.x2))
    rw [hq] at h2 ⊢
    have hr : |((rintZ (l * q.x0) + rintZ (l * q.x1) + rintZ (l * -(q.x0 + q.x1)) : ℤ) : ℝ)| < 2 := by
      rw [abs_lt]; push_cast; constructor <;> nlinarith [h0.1, h0.2, h1.1, h1.2, h2.1, h2.2]
    have : |rintZ (l * q.x0) + rintZ (l * q.x1) + rintZ (l * -(q.x0 + q.x1))| < 2 := by exact_mod_cast hr
    omega

/-- … and ±1 does occur, in which case `Miller.round` raises (`ValueError` of the constructor): `(0.3, 0.3, -0.6, 1)` with
`max_index = 1` rounds to `(0, 0, -1, 1)`.  Rounding and rebuilding the redundant index do NOT commute for arbitrary real
input (rebuilding first would give `(0, 0, 0, 1)`). -/
theorem round4_convention_counterexample :
    roundIndices4 1 (⟨3 / 10, 3 / 10, -(6 / 10), 1⟩ : Vec4 ℝ) = .ok ⟨0, 0, -1, 1⟩ ∧
    millerRound4 1 (⟨3 / 10, 3 / 10, -(6 / 10), 1⟩ : Vec4 ℝ) = .error .convention := by
  have hmx : maxAbs3 (⟨3 / 10, 3 / 10, 1⟩ : Vec3 ℝ) = 1 := by
    rw [maxAbs3_real]; norm_num [abs_of_pos]
  obtain ⟨m, hb, h1, h2, -, -⟩ := bestMultiplier_spec (maxIndex := 1) Nat.one_pos (v := ⟨3 / 10, 3 / 10, 1⟩)
    (by rw [hmx]; norm_num)
  have hm : m = 1 := by omega
  subst hm
  have key : roundIndices4 1 (⟨3 / 10, 3 / 10, -(6 / 10), 1⟩ : Vec4 ℝ) = .ok ⟨0, 0, -1, 1⟩ := by
    rw [roundIndices4_of_best hb, hmx]
    have a : rintZ (((1 : ℕ) : ℝ) / 1 * (3 / 10)) = 0 := rintZ_eq_of_close (by rw [abs_lt]; constructor <;> norm_num)
    have b : rintZ (((1 : ℕ) : ℝ) / 1 * -(6 / 10)) = -1 := rintZ_eq_of_close (by rw [abs_lt]; constructor <;> norm_num)
    have c : rintZ (((1 : ℕ) : ℝ) / 1 * 1) = 1 := rintZ_eq_of_close (by rw [abs_lt]; constructor <;> norm_num)
    rw [a, b, c]
  refine ⟨key, ?_⟩
  rw [millerRound4, key]
  simp [rebuild4]

/-! ## `angle_with(use_symmetry=True)` (model `angleWithSym`) -/

section Angle
variable {X : Type} (act : M3 → X → X) (dot : X → X → ℝ)

/-- B (definition clause). The symmetry-aware angle IS the minimum of the angles to the images of `other` under all
operations: it is attained by an operation and no operation gives less (angles as the code takes them:
`arccos(round(cos, 12))`). -/
theorem angleWithSym_is_min {L : List M3} (hL : L ≠ []) (self other : X) :
    ∃ a, angleWithSym act dot L self other = some a ∧
      (∃ g ∈ L, a = angleTo dot self (act g other)) ∧ ∀ g ∈ L, a ≤ angleTo dot self (act g other) := by
  obtain ⟨a, ha⟩ := minList_isSome (l := (images act L other).map (angleTo dot self))
    (by cases L with
        | nil => exact absurd rfl hL
        | cons g gs => simp [images])
  exact ⟨a, ha, (angleWithSym_eq_some_iff act dot L self other a).mp ha⟩

/-- the code enumerates the DISTINCT images (`symmetrise(unique=True)`); the minimum is the same -/
theorem angleWithSym_eq_over_distinct [DecidableEq X] (L : List M3) (self other : X) :
    angleOver dot self (dedupFirst (images act L other)) = angleWithSym act dot L self other :=
  angleOver_congr_mem dot self (fun _ => mem_dedupFirst)

/-- the rounded angle brackets the exact minimum angle: with `c g` the exact cosine between `self` and the image `g·other`,
`arccos(c g₀ + 5e-13) ≤ angle` for the minimising `g₀` and `angle ≤ arccos(c g - 5e-13)` for every `g` -/
theorem angleWithSym_bracket {L : List M3} (self other : X) {a : ℝ} (h : angleWithSym act dot L self other = some a) :
    (∃ g ∈ L, Real.arccos (dot self (act g other) / (Real.sqrt (dot self self) * Real.sqrt (dot (act g other) (act g other)))
        + 1 / 2 / 10 ^ 12) ≤ a) ∧
    ∀ g ∈ L, a ≤ Real.arccos (dot self (act g other) / (Real.sqrt (dot self self) * Real.sqrt (dot (act g other) (act g other)))
        - 1 / 2 / 10 ^ 12) := by
  obtain ⟨⟨g, hg, rfl⟩, hmin⟩ := (angleWithSym_eq_some_iff act dot L self other a).mp h
  exact ⟨⟨g, hg, (angleTo_bracket dot self (act g other)).1⟩,
    fun k hk => le_trans (hmin k hk) (angleTo_bracket dot self (act k other)).2⟩

/-- SEVERAL `other` vectors: entry `i` is the symmetry-aware angle of the pair at position `i` (the repaired code, fix
820316b) -/
theorem angleWithSymEach_getElem (L : List M3) (selfs others : List X) (i : ℕ) (h₁ : i < selfs.length) (h₂ : i < others.length) :
    (angleWithSymEach act dot L selfs others)[i]'(by simp [angleWithSymEach]; omega) =
      angleWithSym act dot L selfs[i] others[i] := by
  simp [angleWithSymEach]

/-- SEVERAL `other` vectors, the code BEFORE fix 820316b (fixed finding C10-angle-sym-several-others): it took the minimum
over the concatenated orbits of all of them.  For one `other` vector this is the symmetry-aware angle … -/
theorem angleWithSymAll_singleton (L : List M3) (self other : X) :
    angleWithSymAll act dot L self [other] = angleWithSym act dot L self other := by
  simp [angleWithSymAll, angleWithSym]

/-- … for several it is at most the symmetry-aware angle to EACH of them, i.e. not the angle to the vector at the same
position -/
theorem angleWithSymAll_le {L : List M3} {self : X} {others : List X} {o : X} (ho : o ∈ others) {a b : ℝ}
    (ha : angleWithSymAll act dot L self others = some a) (hb : angleWithSym act dot L self o = some b) : a ≤ b := by
  simp only [angleWithSymAll, angleWithSym, angleOver, minList_eq_some_iff] at ha hb
  apply ha.2
  obtain ⟨x, hx, rfl⟩ := List.mem_map.mp hb.1
  exact List.mem_map.mpr ⟨x, List.mem_flatMap.mpr ⟨o, ho, hx⟩, rfl⟩

variable (act_mul : ∀ a b x, act (a.mul b) x = act a (act b x)) (act_one : ∀ x, act M3.one x = x)

include act_one in
/-- B1 (trivial group): the plain angle (with the 12-decimal rounding of the cosine) -/
theorem angleWithSym_trivial (self other : X) :
    angleWithSym act dot [M3.one] self other = some (angleTo dot self other) := by
  simp [angleWithSym, angleOver, images, minList, act_one]

include act_one in
/-- B1: never larger than the plain angle -/
theorem angleWithSym_le_plain {L : List M3} (hL : IsGroupList L) (self other : X) :
    ∃ a, angleWithSym act dot L self other = some a ∧ a ≤ angleTo dot self other := by
  obtain ⟨a, ha, -, hmin⟩ := angleWithSym_is_min act dot (L := L) (List.ne_nil_of_mem hL.one_mem) self other
  refine ⟨a, ha, ?_⟩
  have := hmin M3.one hL.one_mem
  rwa [act_one] at this

include act_mul act_one in
/-- B1: INVARIANT under replacing `other` by any of its images -/
theorem angleWithSym_other_image {L : List M3} (hL : IsGroupList L) {g : M3} (hg : g ∈ L) (self other : X) :
    angleWithSym act dot L self (act g other) = angleWithSym act dot L self other := by
  obtain ⟨g', hg', h1, h2⟩ := inv_two_sided hL hg
  apply angleOver_congr_mem
  intro x
  simp only [images, List.mem_map]
  constructor
  · rintro ⟨h, hh, rfl⟩
    exact ⟨h.mul g, hL.mul_mem h hh g hg, act_mul h g other⟩
  · rintro ⟨h, hh, rfl⟩
    refine ⟨h.mul g', hL.mul_mem h hh g' hg', ?_⟩
    rw [act_mul, ← act_mul g' g, h2, act_one]

include act_mul in
/-- B1: INVARIANT under replacing `self` by any of its images, for operations that preserve the dot product (orthogonal
matrices in Cartesian coordinates; lattice operations with the metric tensor) -/
theorem angleWithSym_self_image {L : List M3} (hL : IsGroupList L)
    (hdot : ∀ g ∈ L, ∀ x y, dot (act g x) (act g y) = dot x y) {g : M3} (hg : g ∈ L) (self other : X) :
    angleWithSym act dot L (act g self) other = angleWithSym act dot L self other := by
  obtain ⟨g', hg', h1, h2⟩ := inv_two_sided hL hg
  have hang : ∀ k ∈ L, ∀ x y, angleTo dot (act k x) (act k y) = angleTo dot x y := by
    intro k hk x y
    simp only [angleTo, hdot k hk]
  unfold angleWithSym angleOver
  apply minList_congr
  intro a
  simp only [images, List.map_map, List.mem_map, Function.comp]
  constructor
  · rintro ⟨h, hh, rfl⟩
    refine ⟨g'.mul h, hL.mul_mem g' hg' h hh, ?_⟩
    rw [← hang g hg self (act (g'.mul h) other), ← act_mul, ← M3.mul_assoc, h1, M3.one_mul]
  · rintro ⟨h, hh, rfl⟩
    refine ⟨g.mul h, hL.mul_mem g hg h hh, ?_⟩
    rw [act_mul, hang g hg]

end Angle

/-- the code's PLAIN angle (`use_symmetry=False`) rounds the cosine to 10 decimals, the symmetry-aware one to 12: "≤ the plain
angle" therefore holds for the 12-decimal plain angle (`angleWithSym_le_plain`) but not for the 10-decimal one — for a cosine
of `1 - 4e-11` the plain angle is 0 and the symmetry-aware angle under the trivial group is positive -/
theorem plain_angle_10_decimals_can_be_smaller :
    Real.arccos (roundDec 10 (1 - 4 / 10 ^ 11 : ℝ)) < Real.arccos (roundDec 12 (1 - 4 / 10 ^ 11 : ℝ)) := by
  have h10 : roundDec 10 (1 - 4 / 10 ^ 11 : ℝ) = 1 := by
    simp only [roundDec, LatLemmas.pow10_real]
    have : rint ((1 - 4 / 10 ^ 11 : ℝ) * 10 ^ 10) = ((10 ^ 10 : ℤ) : ℝ) := by
      rw [rint_eq_rintZ, rintZ_eq_of_close (n := 10 ^ 10)]
      rw [abs_lt]; constructor <;> norm_num
    rw [this]; norm_num
  have h12 : roundDec 12 (1 - 4 / 10 ^ 11 : ℝ) = 1 - 4 / 10 ^ 11 := by
    simp only [roundDec, LatLemmas.pow10_real]
    have : (1 - 4 / 10 ^ 11 : ℝ) * 10 ^ 12 = ((10 ^ 12 - 40 : ℤ) : ℝ) := by norm_num
    rw [this, ColorKey.rint_int]; norm_num
  rw [h10, h12, Real.arccos_one]
  exact Real.arccos_pos.mpr (by norm_num)

/-! ### instances for the regenerated point-group tables, non-vacuity -/

/-- for every point-group object in every lattice basis it is given in, acting on integer indices, with any dot product:
the symmetry-aware angle does not change when `other` is replaced by an image -/
theorem table_angle_other_image {r : GroupRec} (hr : r ∈ PG.all) (b : Basis) {L : List M3} (hL : r.ops b = some L)
    (dot : Z3 → Z3 → ℝ) {g : M3} (hg : g ∈ L) (self other : Z3) :
    angleWithSym M3.act dot L self (M3.act g other) = angleWithSym M3.act dot L self other :=
  angleWithSym_other_image M3.act dot act_mul_Z3 act_one_Z3 (C03.group_facts hr b hL).group hg self other

/-- … and on real direct-lattice coordinates with the metric dot product `uᵀ G v` (what the driver runs) -/
theorem table_angle_other_image_real {r : GroupRec} (hr : r ∈ PG.all) (b : Basis) {L : List M3} (hL : r.ops b = some L)
    (G : Mat3 ℝ) {g : M3} (hg : g ∈ L) (self other : Vec3 ℝ) :
    angleWithSym actS (dotG G) L self (actS g other) = angleWithSym actS (dotG G) L self other :=
  angleWithSym_other_image actS (dotG G) actS_mul actS_one (C03.group_facts hr b hL).group hg self other

/-- … and when `self` is replaced by an image, for a metric tensor the operations preserve -/
theorem table_angle_self_image_real {r : GroupRec} (hr : r ∈ PG.all) (b : Basis) {L : List M3} (hL : r.ops b = some L)
    (G : Mat3 ℝ) (hG : ∀ g ∈ L, ∀ x y, dotG G (actS g x) (actS g y) = dotG G x y) {g : M3} (hg : g ∈ L)
    (self other : Vec3 ℝ) :
    angleWithSym actS (dotG G) L (actS g self) other = angleWithSym actS (dotG G) L self other :=
  angleWithSym_self_image actS (dotG G) actS_mul (C03.group_facts hr b hL).group hG hg self other

/-! non-vacuity: `0.37 · (1,2,3)` and `-2.5 · (1,2,3)` with `max_index = 12`; the largest admissible index 51 with
`max_index = 60`; the quartet `-2.5 · (1,1,-2,3)` with `max_index = 20` -/
example : roundIndices 12 (smulZ (37 / 100) ⟨1, 2, 3⟩) = .ok ⟨1, 2, 3⟩ := by
  have := round_recovers_primitive (w := ⟨1, 2, 3⟩) (maxIndex := 12) (by decide) (by decide) (by decide)
    (t := 37 / 100) (by norm_num)
  rwa [if_pos (by norm_num)] at this
example : roundIndices 12 (smulZ (-5 / 2) ⟨1, 2, 3⟩) = .ok ⟨-1, -2, -3⟩ := by
  have := round_recovers_primitive (w := ⟨1, 2, 3⟩) (maxIndex := 12) (by decide) (by decide) (by decide)
    (t := -5 / 2) (by norm_num)
  rwa [if_neg (by norm_num)] at this
example : roundIndices 60 (smulZ (37 / 100) ⟨51, 51, 50⟩) = .ok ⟨51, 51, 50⟩ := by
  have := round_recovers_primitive (w := ⟨51, 51, 50⟩) (maxIndex := 60) (by decide) (by decide) (by decide)
    (t := 37 / 100) (by norm_num)
  rwa [if_pos (by norm_num)] at this
example : millerRound4 20 (smulZ4 (-5 / 2) (quartetOf ⟨1, 1, 3⟩)) = .ok ⟨-1, -1, 2, -3⟩ := by
  have := (round4_recovers_primitive (w := ⟨1, 1, 3⟩) (maxIndex := 20) (by decide) (by decide) (by decide)
    (t := -5 / 2) (by norm_num)).2
  rwa [if_neg (by norm_num)] at this
/-! the hypotheses of the angle theorems are satisfiable: m-3m on integer indices -/
example (self other : Z3) (g : M3) (hg : g ∈ (PG.g37.ops .cub).getD []) :
    angleWithSym M3.act (fun u v => ((Z3.dot u v : ℤ) : ℝ)) ((PG.g37.ops .cub).getD []) self (M3.act g other)
      = angleWithSym M3.act (fun u v => ((Z3.dot u v : ℤ) : ℝ)) ((PG.g37.ops .cub).getD []) self other := by
  have hr : PG.g37 ∈ PG.all := by simp [PG.all]
  have hL : PG.g37.ops .cub = some ((PG.g37.ops .cub).getD []) := by decide
  exact table_angle_other_image hr .cub hL _ hg self other

end Orix.C10
