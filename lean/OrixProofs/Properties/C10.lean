import OrixProofs.Lemmas.Orbit
import OrixProofs.Properties.C03
import OrixModel.Orbit
/-
C10 — Miller symmetry operations enumerate true orbits.

For any action of a finite matrix group (a group list, C03) on any vector type: `symmetrise` is the list of images
under all operations; with `unique=True` the multiplicity of a vector is its number of distinct images, it divides
the group order (orbit–stabiliser), the vectors are listed grouped in input order with a matching index array;
`unique(use_symmetry=True)` keeps exactly one vector per orbit; orbit equality is "one is an image of the other".
Instantiated for every regenerated point-group table acting on integer lattice indices.
The 1e-10 rounding of near-duplicates and `round` (float search for a common multiplier) are outside the theorems and
compared on the implementation.
-/
namespace Orix.C10
open Orix.Grp Orix.Orb Orix.Gen

variable {X : Type} [DecidableEq X]

theorem mem_dedupFirst : ∀ {l : List X} {x : X}, x ∈ dedupFirst l ↔ x ∈ l
  | [], _ => by simp [dedupFirst]
  | a :: l, x => by
    simp only [dedupFirst, List.mem_cons, List.mem_filter, mem_dedupFirst (l := l), Bool.not_eq_true',
      decide_eq_false_iff_not]
    constructor
    · rintro (h | ⟨h, _⟩)
      · exact Or.inl h
      · exact Or.inr h
    · rintro (h | h)
      · exact Or.inl h
      · by_cases e : x = a
        · exact Or.inl e
        · exact Or.inr ⟨h, e⟩

theorem nodup_dedupFirst : ∀ l : List X, (dedupFirst l).Nodup
  | [] => by simp [dedupFirst]
  | a :: l => by
    rw [dedupFirst, List.nodup_cons]
    refine ⟨?_, (nodup_dedupFirst l).filter _⟩
    intro h
    have := (List.mem_filter.mp h).2
    simp at this

theorem idx_length (gs : List (List X)) : ∀ k : Nat,
    (((gs.zipIdx k).map fun p => List.replicate p.1.length p.2).flatten).length = gs.flatten.length := by
  induction gs with
  | nil => intro k; simp
  | cons g gs ih => intro k; simp [List.zipIdx_cons, ih (k + 1)]

/-- `symmetrise` returns exactly the images of the vector under all group operations -/
theorem symmetrise_is_images (act : M3 → X → X) (L : List M3) (v w : X) :
    w ∈ images act L v ↔ ∃ g ∈ L, act g v = w := by
  simp [images, List.mem_map]

/-- the distinct images, without repetition -/
theorem distinct_images (act : M3 → X → X) (L : List M3) (v : X) :
    (dedupFirst (images act L v)).Nodup ∧ ∀ w, w ∈ dedupFirst (images act L v) ↔ ∃ g ∈ L, act g v = w :=
  ⟨nodup_dedupFirst _, fun w => by rw [mem_dedupFirst, symmetrise_is_images]⟩

/-- the multiplicity is the number of distinct images -/
theorem multiplicity_eq_orbit_card (act : M3 → X → X) (L : List M3) (v : X) :
    (dedupFirst (images act L v)).length = (orbitF act L v).card := by
  rw [← List.toFinset_card_of_nodup (nodup_dedupFirst _)]
  congr 1
  ext w
  simp [orbitF, mem_dedupFirst, images]

/-- ORBIT–STABILISER: multiplicity · |stabiliser| = group order; in particular the multiplicity divides it -/
theorem multiplicity_divides_order (act : M3 → X → X) (act_mul : ∀ a b x, act (a.mul b) x = act a (act b x))
    (act_one : ∀ x, act M3.one x = x) {L : List M3} (hL : IsGroupList L) (v : X) :
    (dedupFirst (images act L v)).length ∣ L.length := by
  rw [multiplicity_eq_orbit_card]
  exact multiplicity_dvd_order act act_mul act_one hL v

/-- LAYOUT of `symmetrise(unique=True, return_multiplicity=True, return_index=True)`: the vectors are the distinct
images grouped in input order; there is one multiplicity per input vector, equal to the size of its group; the index
array has one entry per returned vector. -/
theorem symmetriseUnique_layout (act : M3 → X → X) (L : List M3) (vs : List X) :
    (symmetriseUnique act L vs).1 = (vs.map fun v => dedupFirst (images act L v)).flatten ∧
    (symmetriseUnique act L vs).2.1 = vs.map (fun v => (dedupFirst (images act L v)).length) ∧
    (symmetriseUnique act L vs).2.1.length = vs.length ∧
    (symmetriseUnique act L vs).2.2.length = (symmetriseUnique act L vs).1.length := by
  refine ⟨rfl, ?_, ?_, ?_⟩
  · simp [symmetriseUnique, List.map_map, Function.comp_def]
  · simp [symmetriseUnique]
  · simp only [symmetriseUnique]
    exact idx_length _ 0

/-- every returned vector is a distinct image of the input vector its index points to: stated per group -/
theorem symmetriseUnique_groups (act : M3 → X → X) (L : List M3) (vs : List X) (i : Nat) (v : X)
    (hv : vs[i]? = some v) :
    ((vs.map fun v => dedupFirst (images act L v))[i]?) = some (dedupFirst (images act L v)) := by
  simp [List.getElem?_map, hv]

/-- `unique(use_symmetry=True)`: every input vector is in the orbit of a kept vector -/
theorem uniqueSym_cover (act : M3 → X → X) (act_mul : ∀ a b x, act (a.mul b) x = act a (act b x))
    (act_one : ∀ x, act M3.one x = x) {L : List M3} (hL : IsGroupList L) :
    ∀ (vs : List X) (v : X), v ∈ vs → ∃ u ∈ uniqueSym act L vs, sameOrbit act L v u = true
  | [], _, h => by cases h
  | a :: vs, v, h => by
    rcases List.mem_cons.mp h with rfl | h'
    · refine ⟨v, by simp [uniqueSym], ?_⟩
      simp only [sameOrbit, List.any_eq_true, decide_eq_true_eq]
      exact ⟨M3.one, hL.one_mem, act_one v⟩
    · obtain ⟨u, hu, huv⟩ := uniqueSym_cover act act_mul act_one hL vs v h'
      by_cases hua : sameOrbit act L u a = true
      · -- u is dropped because it is in the orbit of a: then v is in the orbit of a too
        refine ⟨a, by simp [uniqueSym], ?_⟩
        simp only [sameOrbit, List.any_eq_true, decide_eq_true_eq] at huv hua ⊢
        obtain ⟨g, hg, hgv⟩ := huv
        obtain ⟨k, hk, hka⟩ := hua
        exact ⟨g.mul k, hL.mul_mem g hg k hk, by rw [act_mul, hka, hgv]⟩
      · refine ⟨u, ?_, huv⟩
        simp only [uniqueSym, List.mem_cons, List.mem_filter, Bool.not_eq_true']
        right
        exact ⟨hu, by simpa using hua⟩

/-- … and no two kept vectors are in the same orbit -/
theorem uniqueSym_one_per_orbit (act : M3 → X → X) (L : List M3) :
    ∀ vs : List X, (uniqueSym act L vs).Pairwise fun u w => sameOrbit act L w u = false
  | [] => by simp [uniqueSym]
  | a :: vs => by
    simp only [uniqueSym, List.pairwise_cons, List.mem_filter, Bool.not_eq_true']
    exact ⟨fun w hw => hw.2, (uniqueSym_one_per_orbit act L vs).filter _⟩

/-- two vectors have the same set of images iff one is an image of the other (key equality ⇔ same orbit) -/
theorem same_key_iff_same_orbit (act : M3 → X → X) (act_mul : ∀ a b x, act (a.mul b) x = act a (act b x))
    (act_one : ∀ x, act M3.one x = x) {L : List M3} (hL : IsGroupList L) (x y : X) :
    orbitF act L x = orbitF act L y ↔ ∃ g ∈ L, act g x = y := by
  rw [orbit_eq_iff act act_mul act_one hL]
  simp [orbitF, List.mem_map]

/-! ### instantiated for the regenerated point-group tables acting on integer indices -/

/-- For every point-group object, in every lattice basis in which it is given, and every integer index triplet: the
multiplicity divides the order of the group. -/
theorem table_multiplicity_divides {r : GroupRec} (hr : r ∈ PG.all) (b : Basis) {L : List M3}
    (hL : r.ops b = some L) (v : Z3) : (dedupFirst (images M3.act L v)).length ∣ r.order := by
  have hf := C03.group_facts hr b hL
  rw [← hf.order]
  exact multiplicity_divides_order M3.act act_mul_Z3 act_one_Z3 hf.group v

/-! non-vacuity: the general direction (1,2,3) has 48 distinct images under m-3m, (1,0,0) has 6 -/
example : (dedupFirst (images M3.act ((PG.g37.ops .cub).getD []) ⟨1, 2, 3⟩)).length = 48 := by decide +kernel
example : (dedupFirst (images M3.act ((PG.g37.ops .cub).getD []) ⟨1, 0, 0⟩)).length = 6 := by decide +kernel

end Orix.C10
