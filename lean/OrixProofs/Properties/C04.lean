import OrixProofs.Lemmas.Disori
import OrixModel.Disori
/-
C04 — the symmetry-reduced misorientation angle is the true minimum over equivalents.

Rotations are `Rot ℝ` (unit quaternion + properness flag); a symmetry group is a finite list closed under
products and inverses *as rotations* (`IsRotGroup`: up to the sign of the quaternion), which is what orix's
`Symmetry` objects are (C03).  `rdot` is `Rotation.dot_outer`'s entry: `|p·q|`, and 0 for different properness.
`codeDot` is the formula of `Orientation.dot` (max of `rdot (O₂ O₁⁻¹) s` over the list `S` of unique symmetry
products); `bruteDot` is the brute-force maximum over all pairs of equivalents `(g₁O₁, g₂O₂)`.
The angle is `arccos(2 d² − 1)`, antitone in `d ∈ [0,1]`, so the maximal dot is the minimal angle.
-/
namespace Orix.C04
open Orix Orix.Dis

def pairs (A B : List (Rot ℝ)) : List (Rot ℝ × Rot ℝ) := A.flatMap fun a => B.map fun b => (a, b)

theorem mem_pairs {A B : List (Rot ℝ)} {p : Rot ℝ × Rot ℝ} : p ∈ pairs A B ↔ p.1 ∈ A ∧ p.2 ∈ B := by
  unfold pairs
  rw [List.mem_flatMap]
  constructor
  · rintro ⟨a, ha, hp⟩
    obtain ⟨b, hb, rfl⟩ := List.mem_map.mp hp
    exact ⟨ha, hb⟩
  · rintro ⟨ha, hb⟩
    exact ⟨p.1, ha, List.mem_map.mpr ⟨p.2, hb, rfl⟩⟩

/-- brute force: the largest dot product over all pairs of symmetrically equivalent orientations -/
noncomputable def bruteDot (G1 G2 : List (Rot ℝ)) (O1 O2 : Rot ℝ) : ℝ :=
  maxL ((pairs G1 G2).map fun p => rdot (Rot.mul p.2 O2) (Rot.mul p.1 O1))

/-- `Orientation.dot`: `M = other * ~self`, maximum over the unique symmetry products -/
noncomputable def codeDot (S : List (Rot ℝ)) (O1 O2 : Rot ℝ) : ℝ :=
  maxL (S.map fun s => rdot (Rot.mul O2 (rconj O1)) s)

/-- `S` is, as a set of rotations, `{g₂⁻¹ g₁}` -/
structure IsQuotientSet (S G1 G2 : List (Rot ℝ)) : Prop where
  sound : ∀ s ∈ S, ∃ g1 ∈ G1, ∃ g2 ∈ G2, SMem (Rot.mul (rconj g2) g1) [s]
  complete : ∀ g1 ∈ G1, ∀ g2 ∈ G2, SMem (Rot.mul (rconj g2) g1) S

/-- MAIN: the reduced dot product of the code equals the brute-force maximum, for all orientations. -/
theorem codeDot_eq_bruteDot {S G1 G2 : List (Rot ℝ)} (hS : IsQuotientSet S G1 G2) (O1 O2 : Rot ℝ) :
    codeDot S O1 O2 = bruteDot G1 G2 O1 O2 := by
  unfold codeDot bruteDot
  apply maxL_eq_of_cofinal
  · intro v hv
    obtain ⟨s, hs, rfl⟩ := List.mem_map.mp hv
    obtain ⟨g1, hg1, g2, hg2, t, ht, hi, hq⟩ := hS.sound s hs
    have ht' : t = s := by simpa using ht
    subst ht'
    refine ⟨rdot (Rot.mul g2 O2) (Rot.mul g1 O1), List.mem_map.mpr ⟨(g1, g2), mem_pairs.mpr ⟨hg1, hg2⟩, rfl⟩, ?_⟩
    rw [rdot_mul_mul, rdot_congr hi hq]
  · intro w hw
    obtain ⟨p, hp, rfl⟩ := List.mem_map.mp hw
    obtain ⟨h1, h2⟩ := mem_pairs.mp hp
    obtain ⟨s, hs, hi, hq⟩ := hS.complete p.1 h1 p.2 h2
    refine ⟨rdot (Rot.mul O2 (rconj O1)) s, List.mem_map.mpr ⟨s, hs, rfl⟩, ?_⟩
    rw [rdot_mul_mul, rdot_congr hi hq]

/-- `SMem` is stable under replacing the left factor of a product by a representative -/
theorem smem_mul_left {G : List (Rot ℝ)} (hG : IsRotGroup G) {a b : Rot ℝ} (ha : SMem a G) (hb : b ∈ G) :
    SMem (Rot.mul a b) G := by
  obtain ⟨a', ha', hi, hq⟩ := ha
  obtain ⟨s, hs, hsi, hsq⟩ := hG.mul_mem a' ha' b hb
  refine ⟨s, hs, ?_, ?_⟩
  · rw [hsi]; simp only [Rot.mul, hi]
  · simp only [Rot.mul] at hsq ⊢
    rcases hq with h | h
    · rw [h] at hsq; exact hsq
    · rw [h, neg_mul] at hsq
      rcases hsq with h' | h'
      · right; exact h'
      · left; rw [h', neg_neg]

/-- For one symmetry group `G` on both orientations the list of the group itself is the quotient set:
this is the case `sym1 == sym2` of `_get_unique_symmetry_elements`. -/
theorem group_is_quotient_set {G : List (Rot ℝ)} (hG : IsRotGroup G) : IsQuotientSet G G G where
  sound := by
    intro s hs
    obtain ⟨e, he, hei, heq⟩ := hG.one_mem
    refine ⟨s, hs, e, he, s, by simp, ?_, ?_⟩
    · simp only [Rot.mul, rconj, hei, Bool.false_xor]
    · simp only [Rot.mul, rconj]
      rcases heq with h | h
      · rw [h, conj_one, one_mul]; exact Or.inl rfl
      · rw [h, conj_neg, conj_one, neg_mul, one_mul]; exact Or.inr (neg_neg _).symm
  complete := by
    intro g1 hg1 g2 hg2
    exact smem_mul_left hG (hG.inv_mem g2 hg2) hg1

/-- COROLLARY (one symmetry): `Orientation.dot` is the brute-force maximum over all pairs of equivalents. -/
theorem codeDot_eq_bruteDot_same {G : List (Rot ℝ)} (hG : IsRotGroup G) (O1 O2 : Rot ℝ) :
    codeDot G O1 O2 = bruteDot G G O1 O2 := codeDot_eq_bruteDot (group_is_quotient_set hG) O1 O2

theorem rdot_comm (r s : Rot ℝ) : rdot r s = rdot s r := by
  unfold rdot; rw [dot_comm, Bool.xor_comm]

/-- The value is symmetric in its arguments. -/
theorem bruteDot_symm (G1 G2 : List (Rot ℝ)) (O1 O2 : Rot ℝ) : bruteDot G1 G2 O1 O2 = bruteDot G2 G1 O2 O1 := by
  unfold bruteDot
  apply maxL_eq_of_cofinal
  · intro v hv
    obtain ⟨p, hp, rfl⟩ := List.mem_map.mp hv
    obtain ⟨h1, h2⟩ := mem_pairs.mp hp
    exact ⟨_, List.mem_map.mpr ⟨(p.2, p.1), mem_pairs.mpr ⟨h2, h1⟩, rfl⟩, le_of_eq (rdot_comm _ _)⟩
  · intro v hv
    obtain ⟨p, hp, rfl⟩ := List.mem_map.mp hv
    obtain ⟨h1, h2⟩ := mem_pairs.mp hp
    exact ⟨_, List.mem_map.mpr ⟨(p.2, p.1), mem_pairs.mpr ⟨h2, h1⟩, rfl⟩, le_of_eq (rdot_comm _ _)⟩

theorem pm_symm {a b : Quat ℝ} (h : PM a b) : PM b a := by
  rcases h with h | h
  · exact Or.inl h.symm
  · exact Or.inr (by rw [h, neg_neg])

theorem rot_mul_assoc (a b c : Rot ℝ) : Rot.mul (Rot.mul a b) c = Rot.mul a (Rot.mul b c) := by
  simp only [Rot.mul, mul_assoc, Bool.xor_assoc]

theorem rdot_left_congr {r r' s : Rot ℝ} (hi : r'.improper = r.improper) (hq : r'.q = r.q ∨ r'.q = Quat.neg r.q) :
    rdot r' s = rdot r s := by
  rw [rdot_comm, rdot_congr hi hq, rdot_comm]

/-- Replacing an argument by a symmetry-equivalent one does not change the value. -/
theorem bruteDot_equiv_left {G1 G2 : List (Rot ℝ)} (hG : IsRotGroup G1) {g : Rot ℝ} (hg : g ∈ G1) (O1 O2 : Rot ℝ) :
    bruteDot G1 G2 (Rot.mul g O1) O2 = bruteDot G1 G2 O1 O2 := by
  unfold bruteDot
  apply maxL_eq_of_cofinal
  · intro v hv
    obtain ⟨p, hp, rfl⟩ := List.mem_map.mp hv
    obtain ⟨h1, h2⟩ := mem_pairs.mp hp
    obtain ⟨s, hs, hsi, hsq⟩ := hG.mul_mem p.1 h1 g hg
    refine ⟨_, List.mem_map.mpr ⟨(s, p.2), mem_pairs.mpr ⟨hs, h2⟩, rfl⟩, le_of_eq ?_⟩
    show rdot (Rot.mul p.2 O2) (Rot.mul p.1 (Rot.mul g O1)) = rdot (Rot.mul p.2 O2) (Rot.mul s O1)
    rw [← rot_mul_assoc]
    symm
    apply rdot_congr
    · simp only [Rot.mul, hsi]
    · simp only [Rot.mul] at hsq ⊢
      rcases hsq with h | h
      · left; rw [h]
      · right; rw [h, neg_mul]
  · intro v hv
    obtain ⟨p, hp, rfl⟩ := List.mem_map.mp hv
    obtain ⟨h1, h2⟩ := mem_pairs.mp hp
    -- p.1 = (p.1 g⁻¹) g
    obtain ⟨gi, hgi, hgii, hgiq⟩ := hG.inv_mem g hg
    obtain ⟨s, hs, hsi, hsq⟩ := hG.mul_mem p.1 h1 gi hgi
    refine ⟨_, List.mem_map.mpr ⟨(s, p.2), mem_pairs.mpr ⟨hs, h2⟩, rfl⟩, le_of_eq ?_⟩
    show rdot (Rot.mul p.2 O2) (Rot.mul p.1 O1) = rdot (Rot.mul p.2 O2) (Rot.mul s (Rot.mul g O1))
    rw [← rot_mul_assoc]
    apply rdot_congr
    · simp only [Rot.mul, hsi, hgii, rconj]
      cases p.1.improper <;> cases g.improper <;> cases O1.improper <;> rfl
    · -- (s g).q = ± ((p.1 g⁻¹) g).q = ± p.1.q  (g is a unit quaternion)
      have e1 : PM s.q (Quat.mul p.1.q gi.q) := by simpa [Rot.mul, PM] using hsq
      have e2 : PM gi.q (Quat.conj g.q) := by simpa [rconj, PM] using hgiq
      have e3 : PM (Quat.mul s.q g.q) (Quat.mul (Quat.mul p.1.q (Quat.conj g.q)) g.q) :=
        (e1.trans (e2.mul_left p.1.q)).mul_right g.q
      rw [mul_assoc, conj_mul_self g.q (hG.unit g hg), mul_one] at e3
      simp only [Rot.mul]
      exact pm_symm (e3.mul_right O1.q)

/-- by symmetry of the value, also on the right -/
theorem bruteDot_equiv_right {G1 G2 : List (Rot ℝ)} (hG : IsRotGroup G2) {g : Rot ℝ} (hg : g ∈ G2) (O1 O2 : Rot ℝ) :
    bruteDot G1 G2 O1 (Rot.mul g O2) = bruteDot G1 G2 O1 O2 := by
  rw [bruteDot_symm, bruteDot_equiv_left hG hg, bruteDot_symm]

/-- `S` is, as a set of rotations, the set of products `{g₂ g₁}` — what
`_get_unique_symmetry_elements(other.symmetry, self.symmetry)` builds for two different symmetries. -/
structure IsProductSet (S G1 G2 : List (Rot ℝ)) : Prop where
  sound : ∀ s ∈ S, ∃ g1 ∈ G1, ∃ g2 ∈ G2, SMem (Rot.mul g2 g1) [s]
  complete : ∀ g1 ∈ G1, ∀ g2 ∈ G2, SMem (Rot.mul g2 g1) S

theorem rconj_rconj (g : Rot ℝ) : rconj (rconj g) = g := by
  cases g; simp [rconj, conj_conj]

/-- Two symmetries: since `G₂` is closed under inverses the product set is the quotient set, so the code's
formula is the brute-force maximum over `(g₁O₁, g₂O₂)` for ANY two symmetry groups. -/
theorem codeDot_eq_bruteDot_two {S G1 G2 : List (Rot ℝ)} (hG2 : IsRotGroup G2) (hS : IsProductSet S G1 G2)
    (O1 O2 : Rot ℝ) : codeDot S O1 O2 = bruteDot G1 G2 O1 O2 := by
  apply codeDot_eq_bruteDot
  constructor
  · intro s hs
    obtain ⟨g1, hg1, g2, hg2, t, ht, hi, hq⟩ := hS.sound s hs
    have ht' : t = s := by simpa using ht
    subst ht'
    obtain ⟨gi, hgi, hgii, hgiq⟩ := hG2.inv_mem g2 hg2
    refine ⟨g1, hg1, gi, hgi, t, by simp, ?_, ?_⟩
    · rw [hi]; simp only [Rot.mul, rconj, hgii]
    · have e1 : PM t.q (Quat.mul g2.q g1.q) := by simpa [Rot.mul, PM] using hq
      have e2 : PM gi.q (Quat.conj g2.q) := by simpa [rconj, PM] using hgiq
      have e3 : PM (Quat.conj gi.q) g2.q := by
        rcases e2 with h | h
        · left; rw [h, conj_conj]
        · right; rw [h, conj_neg, conj_conj]
      simp only [Rot.mul, rconj]
      exact e1.trans ((pm_symm e3).mul_right g1.q)
  · intro g1 hg1 g2 hg2
    obtain ⟨gi, hgi, hgii, hgiq⟩ := hG2.inv_mem g2 hg2
    obtain ⟨s, hs, hsi, hsq⟩ := hS.complete g1 hg1 gi hgi
    refine ⟨s, hs, ?_, ?_⟩
    · rw [hsi]; simp only [Rot.mul, rconj, hgii]
    · have e1 : PM s.q (Quat.mul gi.q g1.q) := by simpa [Rot.mul, PM] using hsq
      have e2 : PM gi.q (Quat.conj g2.q) := by simpa [rconj, PM] using hgiq
      simp only [Rot.mul, rconj]
      exact e1.trans (e2.mul_right g1.q)

/-! ### the executable model (`OrixModel/Disori.lean`, run by the driver) is these functions over ℝ -/

theorem model_rdot (r s : Rot ℝ) : Disori.rdot r s = rdot r s := by
  unfold Disori.rdot rdot; simp
theorem model_maxL : ∀ l : List ℝ, Disori.maxL l = maxL l
  | [] => by simp [Disori.maxL, maxL]
  | x :: xs => by
    simp only [Disori.maxL, maxL, model_maxL xs, Scalar.max2]
    by_cases h : x < maxL xs
    · have : Scalar.lt x (maxL xs) = true := (lt_real _ _).mpr h
      simp only [this, if_true]; exact (max_eq_right (le_of_lt h)).symm
    · have : ¬ (Scalar.lt x (maxL xs) = true) := fun hh => h ((lt_real _ _).mp hh)
      simp only [this, if_false]; exact (max_eq_left (not_lt.mp h)).symm
theorem model_bruteDot (G1 G2 : List (Rot ℝ)) (O1 O2 : Rot ℝ) :
    Disori.bruteDot G1 G2 O1 O2 = bruteDot G1 G2 O1 O2 := by
  unfold Disori.bruteDot bruteDot
  rw [model_maxL]
  congr 1
  simp only [Disori.pairs, pairs, model_rdot]
theorem model_codeDot (S : List (Rot ℝ)) (O1 O2 : Rot ℝ) : Disori.codeDot S O1 O2 = codeDot S O1 O2 := by
  unfold Disori.codeDot codeDot
  rw [model_maxL]
  congr 1
  simp only [model_rdot, Disori.rconj, rconj]

/-- MAIN, for the executable model: code formula = brute force, one symmetry and two symmetries. -/
theorem model_codeDot_eq_bruteDot_same {G : List (Rot ℝ)} (hG : IsRotGroup G) (O1 O2 : Rot ℝ) :
    Disori.codeDot G O1 O2 = Disori.bruteDot G G O1 O2 := by
  rw [model_codeDot, model_bruteDot]; exact codeDot_eq_bruteDot_same hG O1 O2
theorem model_codeDot_eq_bruteDot_two {S G1 G2 : List (Rot ℝ)} (hG2 : IsRotGroup G2) (hS : IsProductSet S G1 G2)
    (O1 O2 : Rot ℝ) : Disori.codeDot S O1 O2 = Disori.bruteDot G1 G2 O1 O2 := by
  rw [model_codeDot, model_bruteDot]; exact codeDot_eq_bruteDot_two hG2 hS O1 O2

/-! ### range, equivalents, angle -/

theorem normSq_mul (p q : Quat ℝ) : Quat.normSq (Quat.mul p q) = Quat.normSq p * Quat.normSq q := by
  simp only [Quat.normSq, Quat.mul]; ring

theorem rdot_le_one {r s : Rot ℝ} (hr : Quat.normSq r.q = 1) (hs : Quat.normSq s.q = 1) : rdot r s ≤ 1 := by
  unfold rdot
  cases xor r.improper s.improper
  · simpa using dot_le_one r.q s.q hr hs
  · simp

/-- dot products of unit orientations under unit symmetry operations never exceed 1 … -/
theorem bruteDot_le_one {G1 G2 : List (Rot ℝ)} (h1 : IsRotGroup G1) (h2 : IsRotGroup G2) {O1 O2 : Rot ℝ}
    (hO1 : Quat.normSq O1.q = 1) (hO2 : Quat.normSq O2.q = 1) : bruteDot G1 G2 O1 O2 ≤ 1 := by
  unfold bruteDot
  apply maxL_le (by norm_num)
  intro v hv
  obtain ⟨p, hp, rfl⟩ := List.mem_map.mp hv
  obtain ⟨hp1, hp2⟩ := mem_pairs.mp hp
  apply rdot_le_one
  · simp only [Rot.mul, normSq_mul, h2.unit p.2 hp2, hO2, _root_.mul_one]
  · simp only [Rot.mul, normSq_mul, h1.unit p.1 hp1, hO1, _root_.mul_one]

/-- … and equal 1 — the reduced angle is zero — for symmetrically equivalent orientations. -/
theorem bruteDot_equivalent {G : List (Rot ℝ)} (hG : IsRotGroup G) {g : Rot ℝ} (hg : g ∈ G) {O : Rot ℝ}
    (hO : Quat.normSq O.q = 1) : bruteDot G G O (Rot.mul g O) = 1 := by
  apply le_antisymm
  · exact bruteDot_le_one hG hG hO (by simp only [Rot.mul, normSq_mul, hG.unit g hg, hO, _root_.mul_one])
  · rw [bruteDot_equiv_right hG hg]
    obtain ⟨e, he, hei, heq⟩ := hG.one_mem
    have hmem : rdot (Rot.mul e O) (Rot.mul e O) ∈ (pairs G G).map fun p => rdot (Rot.mul p.2 O) (Rot.mul p.1 O) :=
      List.mem_map.mpr ⟨(e, e), mem_pairs.mpr ⟨he, he⟩, rfl⟩
    have hval : rdot (Rot.mul e O) (Rot.mul e O) = 1 := by
      unfold rdot
      simp only [Bool.xor_self, cond_false, dot_self, Rot.mul, normSq_mul, hG.unit e he, hO, _root_.mul_one, abs_one]
    rw [← hval]
    exact le_maxL_of_mem hmem

/-- the angle of a dot product, as `angle_with` computes it -/
noncomputable def angleOfDot (d : ℝ) : ℝ := Real.arccos (2 * d ^ 2 - 1)

/-- The largest dot product gives the smallest angle: `arccos(2d² − 1)` is antitone on `[0, 1]`. -/
theorem angle_antitone {d1 d2 : ℝ} (h0 : 0 ≤ d1) (h12 : d1 ≤ d2) : angleOfDot d2 ≤ angleOfDot d1 := by
  unfold angleOfDot
  apply Real.arccos_le_arccos
  nlinarith

theorem angle_zero_of_dot_one : angleOfDot 1 = 0 := by
  unfold angleOfDot; norm_num

/-! non-vacuity: the cyclic group 2 (about z) meets `IsRotGroup` -/
noncomputable def C2z : List (Rot ℝ) := [⟨Quat.one, false⟩, ⟨⟨0, 0, 0, 1⟩, false⟩]
example : IsRotGroup C2z where
  unit := by
    intro a ha
    simp only [C2z, List.mem_cons, List.mem_nil_iff, or_false] at ha
    rcases ha with rfl | rfl <;> simp [Quat.normSq, Quat.one]
  one_mem := ⟨⟨Quat.one, false⟩, by simp [C2z], rfl, Or.inl rfl⟩
  mul_mem := by
    intro a ha b hb
    simp only [C2z, List.mem_cons, List.mem_nil_iff, or_false] at ha hb
    rcases ha with rfl | rfl <;> rcases hb with rfl | rfl
    · exact ⟨⟨Quat.one, false⟩, by simp [C2z], rfl, Or.inl (by simp [Rot.mul, one_mul])⟩
    · exact ⟨⟨⟨0, 0, 0, 1⟩, false⟩, by simp [C2z], rfl, Or.inl (by simp [Rot.mul, one_mul])⟩
    · exact ⟨⟨⟨0, 0, 0, 1⟩, false⟩, by simp [C2z], rfl, Or.inl (by simp [Rot.mul, mul_one])⟩
    · exact ⟨⟨Quat.one, false⟩, by simp [C2z], rfl,
        Or.inr (by simp [Rot.mul, Quat.mul, Quat.neg, Quat.one])⟩
  inv_mem := by
    intro a ha
    simp only [C2z, List.mem_cons, List.mem_nil_iff, or_false] at ha
    rcases ha with rfl | rfl
    · exact ⟨⟨Quat.one, false⟩, by simp [C2z], rfl, Or.inl (by simp [rconj, conj_one])⟩
    · exact ⟨⟨⟨0, 0, 0, 1⟩, false⟩, by simp [C2z], rfl,
        Or.inr (by simp [rconj, Quat.conj, Quat.neg])⟩

end Orix.C04
