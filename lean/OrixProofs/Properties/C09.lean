import Mathlib.Tactic.Ring
import Mathlib.Tactic.FieldSimp
import Mathlib.Tactic.LinearCombination
import Mathlib.Tactic.Positivity
import Mathlib.Tactic.NormNum
import Mathlib.Tactic.Linarith
import OrixProofs.Lemmas.RealScalar
import OrixProofs.Lemmas.Lattice
import OrixProofs.Lemmas.LatticeAlign
import OrixModel.Miller
/-
C09 — crystal frame alignment and Miller index conversions are exact linear maps.

All statements are over ℝ and quantify over *all* base matrices `B` accepted by the lattice constructor
(`Lattice.ofBase B = .ok L`, i.e. `det B ≥ 1e-8`; the algebraic identities only use `det B ≠ 0`), all
vectors and all index triplets/quartets.  Only property theorems and non-vacuity examples live here;
helper lemmas are in `OrixProofs/Lemmas/Lattice.lean`.
-/
namespace Orix.C09
open Orix Scalar LatLemmas

/-! ## 1. the lattice object: reciprocal base, metric tensor, duality -/

/-- `recbase` is the inverse of `base` and `metrics` is the Gram matrix `B·Bᵀ` for every accepted base. -/
theorem lattice_fields {B : Mat3 ℝ} {L : Lattice ℝ} (h : Lattice.ofBase B = .ok L) :
    L.base = B ∧ Mat3.mul L.base L.recbase = Mat3.one ∧ Mat3.mul L.recbase L.base = Mat3.one
      ∧ L.metrics = Mat3.gram B ∧ 0 < Mat3.det B := by
  obtain ⟨rfl, hd⟩ := ofBase_ok h
  have hpos : (0 : ℝ) < Mat3.det B := lt_of_lt_of_le (by positivity) hd
  exact ⟨rfl, m3_mul_inv_cancel B hpos.ne', m3_inv_mul_cancel B hpos.ne', metricsOf_eq_gram B hpos.ne', hpos⟩

/-- Direct and reciprocal bases are dual: `aᵢ · a*ⱼ = δᵢⱼ` (rows of `base` against rows of `recbase.T`). -/
theorem bases_dual {B : Mat3 ℝ} {L : Lattice ℝ} (h : Lattice.ofBase B = .ok L) :
    Mat3.mul L.base (Mat3.transpose L.recRows) = Mat3.one := by
  obtain ⟨rfl, hd⟩ := ofBase_ok h
  have hpos : (0 : ℝ) < Mat3.det B := lt_of_lt_of_le (by positivity) hd
  simp only [Lattice.recRows, transpose_transpose]
  exact m3_mul_inv_cancel B hpos.ne'

/-- The same, vector by vector. -/
theorem bases_dual_vectors {B : Mat3 ℝ} {L : Lattice ℝ} (h : Lattice.ofBase B = .ok L) :
    Vec3.dot L.base.row0 L.recRows.row0 = 1 ∧ Vec3.dot L.base.row0 L.recRows.row1 = 0
      ∧ Vec3.dot L.base.row0 L.recRows.row2 = 0 ∧ Vec3.dot L.base.row1 L.recRows.row0 = 0
      ∧ Vec3.dot L.base.row1 L.recRows.row1 = 1 ∧ Vec3.dot L.base.row1 L.recRows.row2 = 0
      ∧ Vec3.dot L.base.row2 L.recRows.row0 = 0 ∧ Vec3.dot L.base.row2 L.recRows.row1 = 0
      ∧ Vec3.dot L.base.row2 L.recRows.row2 = 1 := by
  have := bases_dual h
  simp only [Mat3.mul, Mat3.transpose, Mat3.one, lit_real, Nat.cast_one, Nat.cast_zero] at this
  injection this with h0 h1 h2 h3 h4 h5 h6 h7 h8
  simp only [Vec3.dot, Mat3.row0, Mat3.row1, Mat3.row2]
  exact ⟨h0, h1, h2, h3, h4, h5, h6, h7, h8⟩

/-- The reciprocal lattice exists (diffpy's guard accepts `recbase.T`) exactly when `det B ≤ 1e8`;
its metric tensor is the inverse of the direct one. -/
theorem reciprocal_ok {B : Mat3 ℝ} {L : Lattice ℝ} (h : Lattice.ofBase B = .ok L)
    (hbig : Mat3.det B ≤ 10 ^ 8) :
    ∃ R, L.reciprocal = .ok R ∧ R.base = L.recRows ∧ Mat3.mul L.metrics R.metrics = Mat3.one
      ∧ Mat3.mul R.metrics L.metrics = Mat3.one := by
  obtain ⟨rfl, hd⟩ := ofBase_ok h
  have hpos : (0 : ℝ) < Mat3.det B := lt_of_lt_of_le (by positivity) hd
  have hne := hpos.ne'
  have hdet : Mat3.det (Mat3.transpose (Mat3.inv B)) = 1 / Mat3.det B := by
    rw [det_transpose, det_inv B hne]
  have hge : (1 : ℝ) / 10 ^ 8 ≤ Mat3.det (Mat3.transpose (Mat3.inv B)) := by
    rw [hdet]; exact one_div_le_one_div_of_le hpos hbig
  have hne' : Mat3.det (Mat3.transpose (Mat3.inv B)) ≠ 0 := by rw [hdet]; positivity
  refine ⟨_, ofBase_of_det hge, rfl, ?_, ?_⟩
  · show Mat3.mul (Lattice.metricsOf B) (Lattice.metricsOf (Mat3.transpose (Mat3.inv B))) = Mat3.one
    rw [metricsOf_eq_gram B hne, metricsOf_eq_gram _ hne']
    simp only [Mat3.gram, transpose_transpose]
    rw [m3_mul_assoc, ← m3_mul_assoc (Mat3.transpose B), transpose_mul_inv B hne, m3_one_mul, m3_mul_inv_cancel B hne]
  · show Mat3.mul (Lattice.metricsOf (Mat3.transpose (Mat3.inv B))) (Lattice.metricsOf B) = Mat3.one
    rw [metricsOf_eq_gram B hne, metricsOf_eq_gram _ hne']
    simp only [Mat3.gram, transpose_transpose]
    rw [m3_mul_assoc, ← m3_mul_assoc (Mat3.inv B), m3_inv_mul_cancel B hne, m3_one_mul, transpose_inv_mul B hne]

/-- … and for a cell volume above `1e8` diffpy rejects the reciprocal lattice: the conversion
reciprocal → direct through `reciprocal().metrics` is then an error, not a value. -/
theorem reciprocal_rejected {B : Mat3 ℝ} {L : Lattice ℝ} (h : Lattice.ofBase B = .ok L)
    (hbig : 10 ^ 8 < Mat3.det B) (v : Vec3 ℝ) :
    L.reciprocal = .error .degenerate ∧ transformSpace v .r .d L = .error (.lattice .degenerate) := by
  obtain ⟨rfl, hd⟩ := ofBase_ok h
  have hpos : (0 : ℝ) < Mat3.det B := lt_of_lt_of_le (by positivity) hd
  have hdet : Mat3.det (Mat3.transpose (Mat3.inv B)) = 1 / Mat3.det B := by
    rw [det_transpose, det_inv B hpos.ne']
  have hr : Lattice.reciprocal ⟨B, Mat3.inv B, Lattice.metricsOf B⟩ = .error .degenerate := by
    simp only [Lattice.reciprocal, Lattice.ofBase, lt_real, abs_real, dec_real, lit_real, hdet, Nat.cast_one]
    rw [if_pos]
    rw [abs_of_pos (by positivity)]
    exact one_div_lt_one_div_of_lt (by positivity) hbig
  exact ⟨hr, by simp only [transformSpace, hr]⟩

/-! ## 2. every pair of conversions composes to the identity -/

section conversions
variable {B : Mat3 ℝ} {L : Lattice ℝ}

/-- direct → Cartesian → direct -/
theorem d_c_d (h : Lattice.ofBase B = .ok L) (v : Vec3 ℝ) :
    (transformSpace v .d .c L >>= fun x => transformSpace x .c .d L) = .ok v := by
  obtain ⟨hb, h1, h2, -, -⟩ := lattice_fields h
  show Except.ok (Mat3.vecMul (Mat3.vecMul v L.base) L.recbase) = _
  rw [vecMul_mul, h1, vecMul_one]
/-- Cartesian → direct → Cartesian -/
theorem c_d_c (h : Lattice.ofBase B = .ok L) (v : Vec3 ℝ) :
    (transformSpace v .c .d L >>= fun x => transformSpace x .d .c L) = .ok v := by
  obtain ⟨hb, h1, h2, -, -⟩ := lattice_fields h
  show Except.ok (Mat3.vecMul (Mat3.vecMul v L.recbase) L.base) = _
  rw [vecMul_mul, h2, vecMul_one]
/-- reciprocal → Cartesian → reciprocal -/
theorem r_c_r (h : Lattice.ofBase B = .ok L) (v : Vec3 ℝ) :
    (transformSpace v .r .c L >>= fun x => transformSpace x .c .r L) = .ok v := by
  obtain ⟨hb, h1, h2, -, -⟩ := lattice_fields h
  show Except.ok (Mat3.vecMul (Mat3.vecMul v (Mat3.transpose L.recbase)) (Mat3.transpose L.base)) = _
  rw [vecMul_mul, ← transpose_mul, h1, transpose_one, vecMul_one]
/-- Cartesian → reciprocal → Cartesian -/
theorem c_r_c (h : Lattice.ofBase B = .ok L) (v : Vec3 ℝ) :
    (transformSpace v .c .r L >>= fun x => transformSpace x .r .c L) = .ok v := by
  obtain ⟨hb, h1, h2, -, -⟩ := lattice_fields h
  show Except.ok (Mat3.vecMul (Mat3.vecMul v (Mat3.transpose L.base)) (Mat3.transpose L.recbase)) = _
  rw [vecMul_mul, ← transpose_mul, h2, transpose_one, vecMul_one]

/-- direct → reciprocal through the metric tensor is the same map as direct → Cartesian → reciprocal. -/
theorem d_r_via_c (h : Lattice.ofBase B = .ok L) (v : Vec3 ℝ) :
    transformSpace v .d .r L = (transformSpace v .d .c L >>= fun x => transformSpace x .c .r L) := by
  obtain ⟨hb, -, -, hm, -⟩ := lattice_fields h
  show Except.ok (Mat3.vecMul v L.metrics) = Except.ok (Mat3.vecMul (Mat3.vecMul v L.base) (Mat3.transpose L.base))
  rw [vecMul_mul, hm, hb]; rfl

/-- reciprocal → direct through the reciprocal metric tensor is reciprocal → Cartesian → direct
(whenever diffpy builds the reciprocal lattice). -/
theorem r_d_via_c (h : Lattice.ofBase B = .ok L) (hbig : Mat3.det B ≤ 10 ^ 8) (v : Vec3 ℝ) :
    transformSpace v .r .d L = (transformSpace v .r .c L >>= fun x => transformSpace x .c .d L) := by
  obtain ⟨rfl, hd⟩ := ofBase_ok h
  have hpos : (0 : ℝ) < Mat3.det B := lt_of_lt_of_le (by positivity) hd
  have hne := hpos.ne'
  have hdet : Mat3.det (Mat3.transpose (Mat3.inv B)) = 1 / Mat3.det B := by
    rw [det_transpose, det_inv B hne]
  have hge : (1 : ℝ) / 10 ^ 8 ≤ Mat3.det (Mat3.transpose (Mat3.inv B)) := by
    rw [hdet]; exact one_div_le_one_div_of_le hpos hbig
  have hne' : Mat3.det (Mat3.transpose (Mat3.inv B)) ≠ 0 := by rw [hdet]; positivity
  have hr : Lattice.reciprocal ⟨B, Mat3.inv B, Lattice.metricsOf B⟩ = .ok _ := ofBase_of_det hge
  simp only [transformSpace, hr]
  show Except.ok _ = Except.ok _
  rw [vecMul_mul, metricsOf_eq_gram _ hne']
  simp only [Mat3.gram, transpose_transpose]

/-- direct → reciprocal → direct -/
theorem d_r_d (h : Lattice.ofBase B = .ok L) (hbig : Mat3.det B ≤ 10 ^ 8) (v : Vec3 ℝ) :
    (transformSpace v .d .r L >>= fun x => transformSpace x .r .d L) = .ok v := by
  obtain ⟨R, hR, -, h1, h2⟩ := reciprocal_ok h hbig
  show transformSpace (Mat3.vecMul v L.metrics) .r .d L = _
  simp only [transformSpace, hR]
  rw [vecMul_mul, h1, vecMul_one]
/-- reciprocal → direct → reciprocal -/
theorem r_d_r (h : Lattice.ofBase B = .ok L) (hbig : Mat3.det B ≤ 10 ^ 8) (v : Vec3 ℝ) :
    (transformSpace v .r .d L >>= fun x => transformSpace x .d .r L) = .ok v := by
  obtain ⟨R, hR, -, h1, h2⟩ := reciprocal_ok h hbig
  simp only [transformSpace, hR]
  show Except.ok (Mat3.vecMul (Mat3.vecMul v R.metrics) L.metrics) = _
  rw [vecMul_mul, h2, vecMul_one]

/-- identical spaces: the vector is returned unchanged -/
theorem same_space (s : Space) (v : Vec3 ℝ) (L : Lattice ℝ) : transformSpace v s s L = .ok v := by
  cases s <;> rfl

/-- every conversion is linear -/
theorem transform_linear (s t : Space) (L : Lattice ℝ) (k : ℝ) (u v x y : Vec3 ℝ)
    (hx : transformSpace u s t L = .ok x) (hy : transformSpace v s t L = .ok y) :
    transformSpace (Vec3.add (Vec3.smul k u) v) s t L = .ok (Vec3.add (Vec3.smul k x) y) := by
  have key : ∀ M : Mat3 ℝ, Mat3.vecMul (Vec3.add (Vec3.smul k u) v) M
      = Vec3.add (Vec3.smul k (Mat3.vecMul u M)) (Mat3.vecMul v M) := by
    intro M; lsimp; congr 1 <;> ring
  cases s <;> cases t <;> simp only [transformSpace] at hx hy ⊢
  case r.d =>
    cases hR : L.reciprocal with
    | error e => rw [hR] at hx; cases hx
    | ok R =>
      rw [hR] at hx hy
      injection hx with hx; injection hy with hy; subst hx; subst hy
      exact congrArg _ (key _)
  all_goals
    (injection hx with hx; injection hy with hy; subst hx; subst hy
     first | rfl | exact congrArg _ (key _))
end conversions

/-! ## 3. four-index ↔ three-index on the hyperplane -/

theorem hkil_of_hkl_on_plane (v : Vec3 ℝ) : (hkl2hkil v).x0 + (hkl2hkil v).x1 + (hkl2hkil v).x2 = 0 := by
  simp only [hkl2hkil]; ring
theorem hkl_hkil_hkl (v : Vec3 ℝ) : hkil2hkl (hkl2hkil v) = v := by cases v; rfl
theorem hkil_hkl_hkil (q : Vec4 ℝ) (h : q.x0 + q.x1 + q.x2 = 0) : hkl2hkil (hkil2hkl q) = q := by
  cases q; simp only [hkl2hkil, hkil2hkl, Vec4.mk.injEq, true_and, and_true] at h ⊢; linarith
theorem UVTW_of_uvw_on_plane (v : Vec3 ℝ) : (uvw2UVTW v).x0 + (uvw2UVTW v).x1 + (uvw2UVTW v).x2 = 0 := by
  simp only [uvw2UVTW, lit_real]; push_cast; ring
theorem uvw_UVTW_uvw (v : Vec3 ℝ) : UVTW2uvw (uvw2UVTW v) = v := by
  cases v; simp only [uvw2UVTW, UVTW2uvw, lit_real, Vec3.mk.injEq]; push_cast
  exact ⟨by ring, by ring, trivial⟩
theorem UVTW_uvw_UVTW (q : Vec4 ℝ) (h : q.x0 + q.x1 + q.x2 = 0) : uvw2UVTW (UVTW2uvw q) = q := by
  cases q; simp only [uvw2UVTW, UVTW2uvw, lit_real, Vec4.mk.injEq] at h ⊢; push_cast
  refine ⟨by linarith, by linarith, by linarith, trivial⟩
/-- off the hyperplane the three-index form forgets the redundant index: the round trip is *not* the identity,
which is why the constructors reject such input -/
theorem four_index_off_plane_witness : hkl2hkil (hkil2hkl (⟨1, 0, 0, 0⟩ : Vec4 ℝ)) ≠ ⟨1, 0, 0, 0⟩ := by
  simp [hkl2hkil, hkil2hkl]

/-! ## 4. the `Miller` object: constructors, coordinate properties, guards -/

section miller
variable {B : Mat3 ℝ} {L : Lattice ℝ}

theorem miller_uvw_roundtrip (h : Lattice.ofBase B = .ok L) (pg : Nat) (v : Vec3 ℝ) :
    (Miller.ofUvw v ⟨L, pg⟩).uvw = v := by
  obtain ⟨hb, h1, h2, -, -⟩ := lattice_fields h
  simp only [Miller.ofUvw, Miller.uvw]; rw [vecMul_mul, h1, vecMul_one]
theorem miller_hkl_roundtrip (h : Lattice.ofBase B = .ok L) (pg : Nat) (v : Vec3 ℝ) :
    (Miller.ofHkl v ⟨L, pg⟩).hkl = v := by
  obtain ⟨hb, h1, h2, -, -⟩ := lattice_fields h
  simp only [Miller.ofHkl, Miller.hkl]; rw [vecMul_mul, ← transpose_mul, h1, transpose_one, vecMul_one]
/-- Cartesian data → uvw → Cartesian data (the `uvw` property followed by the `uvw` setter) -/
theorem miller_xyz_uvw_xyz (h : Lattice.ofBase B = .ok L) (m : Miller ℝ) (hm : m.phase.lattice = L) :
    (Miller.setUvw m m.uvw).data = m.data := by
  obtain ⟨hb, h1, h2, -, -⟩ := lattice_fields h
  simp only [Miller.setUvw, Miller.uvw, hm]; rw [vecMul_mul, h2, vecMul_one]
theorem miller_xyz_hkl_xyz (h : Lattice.ofBase B = .ok L) (m : Miller ℝ) (hm : m.phase.lattice = L) :
    (Miller.setHkl m m.hkl).data = m.data := by
  obtain ⟨hb, h1, h2, -, -⟩ := lattice_fields h
  simp only [Miller.setHkl, Miller.hkl, hm]; rw [vecMul_mul, ← transpose_mul, h2, transpose_one, vecMul_one]

theorem check4_iff (q : Vec4 ℝ) : check4 q = true ↔ |q.x0 + q.x1 + q.x2| ≤ 1 / 10 ^ 4 := by
  simp only [check4, le_real, abs_real, dec_real]; norm_num

/-- `Miller(UVTW=q)` on the hyperplane is accepted and `.UVTW` returns `q`. -/
theorem miller_UVTW_roundtrip (h : Lattice.ofBase B = .ok L) (pg : Nat) (q : Vec4 ℝ)
    (hq : q.x0 + q.x1 + q.x2 = 0) :
    ∃ m, Miller.ofUVTW q ⟨L, pg⟩ = .ok m ∧ m.UVTW = q ∧ m.fmt = .UVTW := by
  have hc : check4 q = true := by rw [check4_iff, hq]; norm_num
  refine ⟨⟨Mat3.vecMul (UVTW2uvw q) L.base, .UVTW, ⟨L, pg⟩⟩, by simp only [Miller.ofUVTW, hc, if_true], ?_, rfl⟩
  obtain ⟨hb, h1, h2, -, -⟩ := lattice_fields h
  simp only [Miller.UVTW, Miller.uvw]; rw [vecMul_mul, h1, vecMul_one, UVTW_uvw_UVTW q hq]
/-- `Miller(hkil=q)` on the hyperplane is accepted and `.hkil` returns `q`. -/
theorem miller_hkil_roundtrip (h : Lattice.ofBase B = .ok L) (pg : Nat) (q : Vec4 ℝ)
    (hq : q.x0 + q.x1 + q.x2 = 0) :
    ∃ m, Miller.ofHkil q ⟨L, pg⟩ = .ok m ∧ m.hkil = q ∧ m.fmt = .hkil := by
  have hc : check4 q = true := by rw [check4_iff, hq]; norm_num
  refine ⟨⟨Mat3.vecMul (hkil2hkl q) (Mat3.transpose L.recbase), .hkil, ⟨L, pg⟩⟩,
    by simp only [Miller.ofHkil, hc, if_true], ?_, rfl⟩
  obtain ⟨hb, h1, h2, -, -⟩ := lattice_fields h
  simp only [Miller.hkil, Miller.hkl]
  rw [vecMul_mul, ← transpose_mul, h1, transpose_one, vecMul_one, hkil_hkl_hkil q hq]
/-- the four-index getters always land on the hyperplane -/
theorem miller_four_index_on_plane (m : Miller ℝ) :
    m.UVTW.x0 + m.UVTW.x1 + m.UVTW.x2 = 0 ∧ m.hkil.x0 + m.hkil.x1 + m.hkil.x2 = 0 :=
  ⟨UVTW_of_uvw_on_plane _, hkil_of_hkl_on_plane _⟩
/-- quartets off the hyperplane (beyond the `1e-4` tolerance of the check) are rejected, not repaired -/
theorem miller_four_index_rejected (p : MillerPhase ℝ) (q : Vec4 ℝ) (hq : 1 / 10 ^ 4 < |q.x0 + q.x1 + q.x2|) :
    Miller.ofUVTW q p = .error .value ∧ Miller.ofHkil q p = .error .value := by
  have hc : check4 q = false := by
    rw [Bool.eq_false_iff]; intro hc; rw [check4_iff] at hc; linarith
  simp [Miller.ofUVTW, Miller.ofHkil, hc]

/-- the same vector read in the other space: `Miller(uvw=v).hkl = v·g` (metric tensor) -/
theorem miller_uvw_as_hkl (h : Lattice.ofBase B = .ok L) (pg : Nat) (v : Vec3 ℝ) :
    (Miller.ofUvw v ⟨L, pg⟩).hkl = Mat3.vecMul v L.metrics := by
  obtain ⟨hb, -, -, hm, -⟩ := lattice_fields h
  simp only [Miller.ofUvw, Miller.hkl]; rw [vecMul_mul, hm, hb]; rfl

/-- operands in different spaces, or with different point groups, are rejected by `dot`, `cross`, `angle_with` -/
theorem miller_guards (m n : Miller ℝ) (hbad : m.space ≠ n.space ∨ m.phase.pointGroup ≠ n.phase.pointGroup) :
    Miller.dot m n = .error .value ∧ Miller.cross m n = .error .value ∧ Miller.angleWith m n = .error .value := by
  have hc : Miller.compatible m n = false := by
    simp only [Miller.compatible]
    rcases hbad with hs | hp
    · have : (m.space == n.space) = false := by simpa using hs
      simp [this]
    · have : (m.phase.pointGroup == n.phase.pointGroup) = false := by simpa using hp
      simp [this]
  simp [Miller.dot, Miller.cross, Miller.angleWith, hc]

/-- the cross product is reported in the dual space (and keeps the three- or four-index flavour); vectors whose
format is `xyz` have no dual format (the code raises `KeyError`) -/
theorem miller_cross_space (m n r : Miller ℝ) (h : Miller.cross m n = .ok r) :
    r.data = Vec3.cross m.data n.data ∧ r.space ≠ m.space ∧ m.fmt ≠ .xyz
      ∧ (m.fmt = .uvw → r.fmt = .hkl) ∧ (m.fmt = .hkl → r.fmt = .uvw)
      ∧ (m.fmt = .UVTW → r.fmt = .hkil) ∧ (m.fmt = .hkil → r.fmt = .UVTW) := by
  simp only [Miller.cross] at h
  split at h
  · cases hf : m.fmt <;> simp only [hf] at h <;>
      first | (cases h; done) | (injection h with h; subst h; simp [Miller.space, hf])
  · cases h
end miller

/-! ## 5. dot product, length, cross product -/

/-- `(u a + v b + w c) · (h a* + k b* + l c*) = uh + vk + wl` for every invertible base. -/
theorem dot_direct_reciprocal (B : Mat3 ℝ) (hB : Mat3.det B ≠ 0) (u g : Vec3 ℝ) :
    Vec3.dot (Mat3.vecMul u B) (Mat3.vecMul g (Mat3.transpose (Mat3.inv B)))
      = u.x * g.x + u.y * g.y + u.z * g.z := by
  have hd := det_def B
  lsimp
  generalize Mat3.det B = d at *
  field_simp
  first | linear_combination (u.x * g.x + u.y * g.y + u.z * g.z) * hd
        | linear_combination -(u.x * g.x + u.y * g.y + u.z * g.z) * hd

/-- the same on `Miller` objects (Cartesian data of a direct and a reciprocal vector of one phase) -/
theorem miller_dot_direct_reciprocal {B : Mat3 ℝ} {L : Lattice ℝ} (h : Lattice.ofBase B = .ok L) (pg : Nat)
    (u g : Vec3 ℝ) :
    Vec3.dot (Miller.ofUvw u ⟨L, pg⟩).data (Miller.ofHkl g ⟨L, pg⟩).data = u.x * g.x + u.y * g.y + u.z * g.z := by
  obtain ⟨rfl, hd⟩ := ofBase_ok h
  have hpos : (0 : ℝ) < Mat3.det B := lt_of_lt_of_le (by positivity) hd
  exact dot_direct_reciprocal B hpos.ne' u g

/-- squared length of a direct vector is `u·g·uᵀ`, of a reciprocal vector `h·g⁻¹·hᵀ` (metric tensors) -/
theorem normSq_direct (B : Mat3 ℝ) (u : Vec3 ℝ) :
    Vec3.normSq (Mat3.vecMul u B) = Vec3.dot (Mat3.vecMul u (Mat3.gram B)) u := by
  lsimp; ring
theorem normSq_reciprocal (B : Mat3 ℝ) (hB : Mat3.det B ≠ 0) (g : Vec3 ℝ) :
    Vec3.normSq (Mat3.vecMul g (Mat3.transpose (Mat3.inv B)))
      = Vec3.dot (Mat3.vecMul g (Mat3.inv (Mat3.gram B))) g := by
  have hG : Mat3.det (Mat3.gram B) = Mat3.det B * Mat3.det B := by
    simp only [Mat3.gram, det_mul, det_transpose]
  have hd := det_def B
  have hdG := det_def (Mat3.gram B)
  rw [hG] at hdG
  simp only [Mat3.inv, hG]
  lsimp
  simp only [Mat3.gram, Mat3.mul, Mat3.transpose] at hdG
  generalize Mat3.det B = d at *
  field_simp
  ring1

/-- `Miller.length` for reciprocal vectors is `‖h a* + k b* + l c*‖ = √(h·g⁻¹·hᵀ)`, for direct ones `√(u·g·uᵀ)` -/
theorem miller_length {B : Mat3 ℝ} {L : Lattice ℝ} (h : Lattice.ofBase B = .ok L) (pg : Nat) (v : Vec3 ℝ) :
    (Miller.ofHkl v ⟨L, pg⟩).length = Real.sqrt (Vec3.dot (Mat3.vecMul v (Mat3.inv L.metrics)) v)
      ∧ (Miller.ofUvw v ⟨L, pg⟩).length = Real.sqrt (Vec3.dot (Mat3.vecMul v L.metrics) v) := by
  have hr := miller_hkl_roundtrip h pg v
  have hu := miller_uvw_roundtrip h pg v
  obtain ⟨rfl, hd⟩ := ofBase_ok h
  have hpos : (0 : ℝ) < Mat3.det B := lt_of_lt_of_le (by positivity) hd
  constructor
  · simp only [Miller.length, Miller.ofHkl] at hr ⊢
    rw [hr]
    simp only [Lattice.rnorm, Vec3.norm, sqrt_real]
    rw [normSq_reciprocal B hpos.ne', metricsOf_eq_gram B hpos.ne']
  · simp only [Miller.length, Miller.ofUvw] at hu ⊢
    rw [hu]
    simp only [Lattice.norm, Vec3.norm, sqrt_real]
    rw [normSq_direct, metricsOf_eq_gram B hpos.ne']

/-- `|g_hkl| = 1/d_hkl`, geometric form: with `g = h a* + k b* + l c*` (Cartesian), the lattice planes
`g·x = n` and `g·x = n + 1` are at distance exactly `1/‖g‖`: any two points on them are at least that far
apart, and the step `g/‖g‖²` along the normal realises it. -/
theorem recip_norm_is_inverse_spacing (g x y : Vec3 ℝ) (n : ℝ) (hg : 0 < Vec3.normSq g)
    (hx : Vec3.dot g x = n) (hy : Vec3.dot g y = n + 1) :
    1 ≤ Vec3.normSq (Vec3.sub y x) * Vec3.normSq g
      ∧ Vec3.dot g (Vec3.add x (Vec3.smul (1 / Vec3.normSq g) g)) = n + 1
      ∧ Vec3.normSq (Vec3.smul (1 / Vec3.normSq g) g) * Vec3.normSq g = 1 := by
  refine ⟨?_, ?_, ?_⟩
  · have key : Vec3.dot g (Vec3.sub y x) = 1 := by
      simp only [Vec3.dot, Vec3.sub] at hx hy ⊢; linarith
    simp only [Vec3.dot, Vec3.sub, Vec3.normSq] at key ⊢
    nlinarith [sq_nonneg (g.x * (y.y - x.y) - g.y * (y.x - x.x)), sq_nonneg (g.y * (y.z - x.z) - g.z * (y.y - x.y)),
      sq_nonneg (g.z * (y.x - x.x) - g.x * (y.z - x.z))]
  · have hne := hg.ne'
    simp only [Vec3.dot, Vec3.add, Vec3.smul, Vec3.normSq] at hx hne ⊢
    have : ∀ N : ℝ, g.x * (x.x + 1 / N * g.x) + g.y * (x.y + 1 / N * g.y) + g.z * (x.z + 1 / N * g.z)
        = (g.x * x.x + g.y * x.y + g.z * x.z) + (g.x * g.x + g.y * g.y + g.z * g.z) * (1 / N) := by
      intro N; ring
    rw [this, hx, mul_one_div_cancel hne]
  · have hne := hg.ne'
    simp only [Vec3.dot, Vec3.smul, Vec3.normSq] at hne ⊢
    have : 1 / (g.x * g.x + g.y * g.y + g.z * g.z) * g.x * (1 / (g.x * g.x + g.y * g.y + g.z * g.z) * g.x)
        + 1 / (g.x * g.x + g.y * g.y + g.z * g.z) * g.y * (1 / (g.x * g.x + g.y * g.y + g.z * g.z) * g.y)
        + 1 / (g.x * g.x + g.y * g.y + g.z * g.z) * g.z * (1 / (g.x * g.x + g.y * g.y + g.z * g.z) * g.z)
        = (g.x * g.x + g.y * g.y + g.z * g.z) * (1 / (g.x * g.x + g.y * g.y + g.z * g.z))
          * (1 / (g.x * g.x + g.y * g.y + g.z * g.z)) := by ring
    rw [this, mul_one_div_cancel hne, _root_.one_mul, one_div_mul_cancel hne]

/-- lattice translations sit on those planes: `g·t = uh + vk + wl` (an integer for integer indices) -/
theorem lattice_points_on_planes (B : Mat3 ℝ) (hB : Mat3.det B ≠ 0) (g t : Vec3 ℝ) :
    Vec3.dot (Mat3.vecMul g (Mat3.transpose (Mat3.inv B))) (Mat3.vecMul t B) = g.x * t.x + g.y * t.y + g.z * t.z := by
  have := dot_direct_reciprocal B hB t g
  simp only [Vec3.dot] at this ⊢
  linarith

/-- The cross product is perpendicular to both factors. -/
theorem cross_perp (a b : Vec3 ℝ) : Vec3.dot (Vec3.cross a b) a = 0 ∧ Vec3.dot (Vec3.cross a b) b = 0 := by
  constructor <;> (lsimp; ring)

/-- The Cartesian cross product of two *direct* vectors has reciprocal coordinates `det(B)·(u × v)`:
the zone law in every lattice (integer indices give integer-proportional plane indices). -/
theorem cross_direct_in_reciprocal (B : Mat3 ℝ) (u v : Vec3 ℝ) :
    Mat3.vecMul (Vec3.cross (Mat3.vecMul u B) (Mat3.vecMul v B)) (Mat3.transpose B)
      = Vec3.smul (Mat3.det B) (Vec3.cross u v) := by
  simp only [det_def]; lsimp; congr 1 <;> ring

/-- The Cartesian cross product of two *reciprocal* vectors has direct coordinates `(g × h)/det(B)`. -/
theorem cross_reciprocal_in_direct (B : Mat3 ℝ) (hB : Mat3.det B ≠ 0) (g k : Vec3 ℝ) :
    Mat3.vecMul (Vec3.cross (Mat3.vecMul g (Mat3.transpose (Mat3.inv B))) (Mat3.vecMul k (Mat3.transpose (Mat3.inv B))))
        (Mat3.inv B)
      = Vec3.smul (1 / Mat3.det B) (Vec3.cross g k) := by
  have := cross_direct_in_reciprocal (Mat3.transpose (Mat3.inv B)) g k
  rw [transpose_transpose, det_transpose, det_inv B hB] at this
  exact this

/-- `Miller.cross` of two direct vectors of one phase: data perpendicular to both, coordinates in the dual
(reciprocal) space equal to `det(B)·(u × v)`. -/
theorem miller_cross_direct {B : Mat3 ℝ} {L : Lattice ℝ} (h : Lattice.ofBase B = .ok L) (pg : Nat) (u v : Vec3 ℝ)
    (r : Miller ℝ) (hr : Miller.cross (Miller.ofUvw u ⟨L, pg⟩) (Miller.ofUvw v ⟨L, pg⟩) = .ok r) :
    r.fmt = .hkl ∧ r.hkl = Vec3.smul (Mat3.det B) (Vec3.cross u v)
      ∧ Vec3.dot r.data (Miller.ofUvw u ⟨L, pg⟩).data = 0 ∧ Vec3.dot r.data (Miller.ofUvw v ⟨L, pg⟩).data = 0 := by
  obtain ⟨hd, -, -, hf, -, -, -⟩ := miller_cross_space _ _ _ hr
  obtain ⟨rfl, -⟩ := ofBase_ok h
  have hph : r.phase = ⟨⟨B, Mat3.inv B, Lattice.metricsOf B⟩, pg⟩ := by
    simp only [Miller.cross] at hr
    split at hr
    · simp only [Miller.ofUvw] at hr; injection hr with hr; subst hr; rfl
    · cases hr
  refine ⟨hf rfl, ?_, ?_, ?_⟩
  · simp only [Miller.hkl, hd, hph, Miller.ofUvw]; exact cross_direct_in_reciprocal B u v
  · rw [hd]; exact (cross_perp _ _).1
  · rw [hd]; exact (cross_perp _ _).2


/-! ## 6. crystal frame alignment (`Phase.structure` setter) -/

section alignment
variable (B : Mat3 ℝ)

/-- The new base is the old one expressed in a right-handed orthonormal frame: `new = B·Eᵀ` with `E·Eᵀ = 1`,
`det E = 1` — a rigid rotation of the lattice, for every invertible old base (any initial rotation). -/
theorem align_is_rotation (hB : Mat3.det B ≠ 0) :
    Mat3.mul (alignFrame B) (Mat3.transpose (alignFrame B)) = Mat3.one ∧ Mat3.det (alignFrame B) = 1
      ∧ alignExact B = Mat3.mul B (Mat3.transpose (alignFrame B)) := by
  obtain ⟨F⟩ := frameFacts B hB
  rw [F.frame]
  exact ⟨(frame_orthonormal F.x F.z F.hx F.hz F.hzx).1, (frame_orthonormal F.x F.z F.hx F.hz F.hzx).2,
    by simp only [alignExact, F.frame]⟩

/-- Same metric tensor, … -/
theorem align_metric (hB : Mat3.det B ≠ 0) : Mat3.gram (alignExact B) = Mat3.gram B := by
  obtain ⟨h1, -, h3⟩ := align_is_rotation B hB
  rw [h3]; exact gram_rotate B _ h1

/-- … hence the same lattice parameters `a, b, c, cos α, cos β, cos γ` (and `abcABG()`), … -/
theorem align_parameters (hB : Mat3.det B ≠ 0) :
    Lattice.cellOf (alignExact B) = Lattice.cellOf B
      ∧ ∀ L L' : Lattice ℝ, L.base = B → L'.base = alignExact B → L'.abcABG = L.abcABG := by
  have h := align_metric B hB
  simp only [Mat3.gram, Mat3.mul, Mat3.transpose] at h
  injection h with h00 h01 h02 h10 h11 h12 h20 h21 h22
  have hc : Lattice.cellOf (alignExact B) = Lattice.cellOf B := by
    simp only [Lattice.cellOf, Vec3.dot, Mat3.row0, Mat3.row1, Mat3.row2]
    rw [h00, h01, h02, h11, h12, h22]
  refine ⟨hc, ?_⟩
  intro L L' hL hL'
  simp only [Lattice.abcABG, hL, hL', hc]

/-- … the same volume and handedness (`det > 0` is kept), … -/
theorem align_det (hB : Mat3.det B ≠ 0) : Mat3.det (alignExact B) = Mat3.det B := by
  obtain ⟨-, h2, h3⟩ := align_is_rotation B hB
  rw [h3, det_mul, det_transpose, h2, _root_.mul_one]

/-- … `a ∥ e1` (with its length kept) and `b` in the `e1`–`e2` plane on the `+e2` side: the new base is
lower triangular with positive diagonal. -/
theorem align_shape (hB : 0 < Mat3.det B) :
    (alignExact B).row0 = ⟨Vec3.norm B.row0, 0, 0⟩ ∧ 0 < Vec3.norm B.row0
      ∧ (alignExact B).m12 = 0 ∧ 0 < (alignExact B).m11 ∧ 0 < (alignExact B).m22 := by
  obtain ⟨F⟩ := frameFacts B hB.ne'
  have hdet := align_det B hB.ne'
  have ha := F.ha
  have hb := F.hb
  simp only [Mat3.row0, Mat3.row1, Vec3.smul, Vec3.mk.injEq] at ha hb
  obtain ⟨a0, a1, a2⟩ := ha
  obtain ⟨b0, b1, b2⟩ := hb
  have hx := F.hx
  have hzx := F.hzx
  have hzb := F.hzb
  have ht := F.htriple
  have hα := F.hα
  have hβ := F.hβ
  have hν := F.hν
  simp only [Vec3.normSq, Vec3.dot, Vec3.cross] at hx hzx hzb ht
  have e00 : (alignExact B).m00 = F.α := by
    simp only [alignExact, F.frame]; lsimp; rw [a0, a1, a2]; linear_combination F.α * hx
  have e01 : (alignExact B).m01 = 0 := by
    simp only [alignExact, F.frame]; lsimp; rw [a0, a1, a2]; ring
  have e02 : (alignExact B).m02 = 0 := by
    simp only [alignExact, F.frame]; lsimp; rw [a0, a1, a2]; linear_combination F.α * hzx
  have e12 : (alignExact B).m12 = 0 := by
    simp only [alignExact, F.frame]; lsimp; rw [b0, b1, b2]; linear_combination F.β * hzb
  have e11 : (alignExact B).m11 = F.β * F.ν := by
    simp only [alignExact, F.frame]; lsimp; rw [b0, b1, b2]; linear_combination F.β * ht
  have h11 : 0 < (alignExact B).m11 := by rw [e11]; positivity
  have h22 : 0 < (alignExact B).m22 := by
    have hd : Mat3.det (alignExact B) = (alignExact B).m00 * (alignExact B).m11 * (alignExact B).m22 := by
      rw [det_def, e01, e02, e12]; ring
    rw [hdet, e00] at hd
    have : 0 < F.α * (alignExact B).m11 * (alignExact B).m22 := by rw [← hd]; exact hB
    have hp : 0 < F.α * (alignExact B).m11 := by positivity
    exact (mul_pos_iff_of_pos_left hp).mp this
  refine ⟨?_, F.αdef ▸ hα, e12, h11, h22⟩
  simp only [Mat3.row0, e00, e01, e02, F.αdef]

/-- Any lower-triangular right-handed base with positive diagonal has `a ∥ +e1` and `c* ∥ +e3`
(`c*` = third column of the inverse = third row of `recbase.T`). -/
theorem lower_triangular_aligned (N : Mat3 ℝ) (h01 : N.m01 = 0) (h02 : N.m02 = 0) (h12 : N.m12 = 0)
    (h00 : 0 < N.m00) (h11 : 0 < N.m11) (h22 : 0 < N.m22) :
    N.row0 = ⟨N.m00, 0, 0⟩ ∧ (Mat3.transpose (Mat3.inv N)).row2 = ⟨0, 0, 1 / N.m22⟩ ∧ 0 < Mat3.det N := by
  have hd : Mat3.det N = N.m00 * N.m11 * N.m22 := by rw [det_def, h01, h02, h12]; ring
  have hpos : 0 < Mat3.det N := by rw [hd]; positivity
  refine ⟨by simp only [Mat3.row0, h01, h02], ?_, hpos⟩
  simp only [Mat3.row2, Mat3.transpose, Mat3.inv, Mat3.map, Mat3.adj, hd, h01, h02, h12]
  congr 1
  · simp
  · simp
  · field_simp; ring

/-- The aligned lattice: accepted by the lattice constructor for every accepted old base, `a ∥ e1`, `c* ∥ e3`,
right-handed. -/
theorem align_exact_lattice {L : Lattice ℝ} (h : Lattice.ofBase B = .ok L) :
    ∃ L', Lattice.ofBase (alignExact B) = .ok L'
      ∧ L'.base.row0 = ⟨Vec3.norm B.row0, 0, 0⟩
      ∧ L'.recRows.row2 = ⟨0, 0, 1 / (alignExact B).m22⟩ ∧ 0 < (alignExact B).m22
      ∧ 0 < Mat3.det L'.base ∧ L'.metrics = L.metrics := by
  obtain ⟨rfl, hd⟩ := ofBase_ok h
  have hpos : (0 : ℝ) < Mat3.det B := lt_of_lt_of_le (by positivity) hd
  obtain ⟨hr0, hn, e12, h11, h22⟩ := align_shape B hpos
  have hdet := align_det B hpos.ne'
  have h00 : 0 < (alignExact B).m00 := by
    have := congrArg Vec3.x hr0; simp only [Mat3.row0] at this; rw [this]; exact hn
  have h01 : (alignExact B).m01 = 0 := by have := congrArg Vec3.y hr0; simpa [Mat3.row0] using this
  have h02 : (alignExact B).m02 = 0 := by have := congrArg Vec3.z hr0; simpa [Mat3.row0] using this
  obtain ⟨-, hc, -⟩ := lower_triangular_aligned _ h01 h02 e12 h00 h11 h22
  refine ⟨_, ofBase_of_det (by rw [hdet]; exact hd), hr0, hc, h22, by rw [hdet]; exact hpos, ?_⟩
  show Lattice.metricsOf (alignExact B) = Lattice.metricsOf B
  rw [metricsOf_eq_gram _ (by rw [hdet]; exact hpos.ne'), metricsOf_eq_gram _ hpos.ne', align_metric B hpos.ne']

/-- The 12-decimal rounding the code applies moves every entry by at most `5·10⁻¹³` and keeps the three
structural zeros exactly zero, so it never breaks `a ∥ e1`, `c* ∥ e3` (see `lower_triangular_aligned`). -/
theorem align_rounding (hB : 0 < Mat3.det B) :
    (align B).m01 = 0 ∧ (align B).m02 = 0 ∧ (align B).m12 = 0
      ∧ |(align B).m00 - (alignExact B).m00| ≤ 1 / 2 / 10 ^ 12 ∧ |(align B).m10 - (alignExact B).m10| ≤ 1 / 2 / 10 ^ 12
      ∧ |(align B).m11 - (alignExact B).m11| ≤ 1 / 2 / 10 ^ 12 ∧ |(align B).m20 - (alignExact B).m20| ≤ 1 / 2 / 10 ^ 12
      ∧ |(align B).m21 - (alignExact B).m21| ≤ 1 / 2 / 10 ^ 12 ∧ |(align B).m22 - (alignExact B).m22| ≤ 1 / 2 / 10 ^ 12 := by
  obtain ⟨hr0, -, e12, -, -⟩ := align_shape B hB
  have h01 : (alignExact B).m01 = 0 := by have := congrArg Vec3.y hr0; simpa [Mat3.row0] using this
  have h02 : (alignExact B).m02 = 0 := by have := congrArg Vec3.z hr0; simpa [Mat3.row0] using this
  simp only [align, Mat3.map, h01, h02, e12, roundDec_zero]
  exact ⟨trivial, trivial, trivial, roundDec_close _ _, roundDec_close _ _, roundDec_close _ _, roundDec_close _ _,
    roundDec_close _ _, roundDec_close _ _⟩

/-- The setter keeps every atom's Cartesian position: the new fractional coordinates times the new base
equal the old fractional coordinates times the old base (for whatever base the lattice constructor accepted). -/
theorem atoms_cartesian_kept {L : Lattice ℝ} {frac : List (Vec3 ℝ)} {P : PhaseStructure ℝ}
    (h : setStructure L frac = .ok P) :
    P.frac.map (fun f => Mat3.vecMul f P.lattice.base) = frac.map (fun f => Mat3.vecMul f L.base)
      ∧ Lattice.ofBase (align L.base) = .ok P.lattice := by
  simp only [setStructure] at h
  cases hL : Lattice.ofBase (align L.base) with
  | error e => rw [hL] at h; cases h
  | ok L' =>
    rw [hL] at h
    injection h with h
    subst h
    obtain ⟨-, -, h2, -, -⟩ := lattice_fields hL
    refine ⟨?_, rfl⟩
    simp only [List.map_map]
    apply List.map_congr_left
    intro f _
    simp only [Function.comp]
    rw [vecMul_mul, h2, vecMul_one]
end alignment

/-! ## 7. non-vacuity: a triclinic rational lattice with a pre-rotated base -/

/-- a triclinic base (rows a, b, c), rational entries, `det = 18 > 0` -/
noncomputable def Btri : Mat3 ℝ := ⟨2, 1, 0, -1, 3, 1, 1/2, 0, 5/2⟩

example : Mat3.det Btri = 18 := by simp only [det_def, Btri]; norm_num
example : ∃ L, Lattice.ofBase Btri = .ok L :=
  ⟨_, ofBase_of_det (by simp only [det_def, Btri]; norm_num)⟩
example : Mat3.det Btri ≤ 10 ^ 8 := by simp only [det_def, Btri]; norm_num
/-- its Gram matrix is not diagonal and has three different diagonal entries: genuinely triclinic -/
example : Mat3.gram Btri = ⟨5, 1, 1, 1, 11, 2, 1, 2, 13/2⟩ := by
  simp only [Mat3.gram, Mat3.mul, Mat3.transpose, Btri]; norm_num
/-- the direct·reciprocal identity on it, evaluated: [1 2 3]·(3 -1 2) = 7 -/
example : Vec3.dot (Mat3.vecMul ⟨1, 2, 3⟩ Btri) (Mat3.vecMul ⟨3, -1, 2⟩ (Mat3.transpose (Mat3.inv Btri))) = 7 := by
  rw [dot_direct_reciprocal Btri (by simp only [det_def, Btri]; norm_num)]; norm_num
/-- a quartet on the hyperplane, and one that the constructors reject -/
example : check4 (⟨1, 1, -2, 3⟩ : Vec4 ℝ) = true := by rw [check4_iff]; norm_num
example : check4 (⟨1, 1, -1, 3⟩ : Vec4 ℝ) = false := by
  rw [Bool.eq_false_iff, Ne, check4_iff]; norm_num

end Orix.C09
