import OrixProofs.Properties.C02
import OrixProofs.Lemmas.ConvOmCode
import OrixProofs.Lemmas.ConvQuEuCode
import OrixProofs.Lemmas.ConvAx
import OrixProofs.Lemmas.ConvRo
import OrixProofs.Lemmas.ConvHo
/-
C01 — rotation representations convert consistently and round-trip.

All statements are over ℝ and quantify over *all* unit quaternions / all angles / all vectors.
`Conv.*` is the code-shaped model of `orix/quaternion/_conversions.py` (every `eps` branch mirrored,
tied to the source by T-ast obligations `Gen.k = Conv.k` and by the correspondence check);
`ConvSpec.*` are the maps without thresholds.  Theorems about `Conv.*` carry the guards the code's
thresholds need ("outside the band, or exactly on the singular value"); inside the bands the code
deliberately snaps to the singular value, which is an approximation and not an identity.

Only property theorems and non-vacuity examples live in this file (helper lemmas: `Lemmas/Conv*.lean`).

UNPROVED (kept as statements, no `sorry`):
  * `ho2ax (qu2ho q) ≈ qu2ax q`: the homochoric inverse is a fitted 21-term polynomial in the code; there is
    no exact identity to prove.  Correspondence only (tolerance 1e-7 rad).
  * a quantitative bound on the deviation *inside* the threshold bands (e.g. `4a² < eps9` in `om2qu`:
    error ≤ √eps9); only measured by the correspondence check.
  * `eu2qu (Conv.qu2eu q) = ±q` at `Φ = π` with `b·c ≠ 0` is FALSE for the code-shaped model
    (`qu2eu_code_fails_at_pi`); proved for the corrected factor (`eu2qu_qu2euFixed_gimbalPi`) and under the
    guard `b·c = 0` (`eu2qu_qu2eu_gimbalPi_partial`).
-/
namespace Orix.C01
open Orix Scalar

/-! ## orientation matrix -/

/-- matrix times vector equals quaternion times vector (re-export of C02) -/
theorem qu2om_act (q : Quat ℝ) (v : Vec3 ℝ) (h : Quat.normSq q = 1) :
    Mat3.mulVec (Conv.qu2om q) v = Quat.rotate q v := C02.toMat_mulVec q v h
/-- the orientation matrix of a unit quaternion is orthogonal … -/
theorem qu2om_orthogonal (q : Quat ℝ) (h : Quat.normSq q = 1) :
    Mat3.mul (Conv.qu2om q) (Mat3.transpose (Conv.qu2om q)) = Mat3.one := C02.toMat_orthogonal q h
/-- … with determinant one -/
theorem qu2om_det_one (q : Quat ℝ) (h : Quat.normSq q = 1) : Mat3.det (Conv.qu2om q) = 1 := C02.toMat_det q h
/-- `q` and `-q` are the same rotation (same matrix, same action) -/
theorem qu2om_neg (q : Quat ℝ) : Conv.qu2om (Quat.neg q) = Conv.qu2om q := toMat_neg q
theorem rotate_neg (q : Quat ℝ) (v : Vec3 ℝ) : Quat.rotate (Quat.neg q) v = Quat.rotate q v := C02.rotate_neg q v

/-- matrix → quaternion inverts quaternion → matrix, canonical sign (spec map, every unit quaternion) -/
theorem om2quSpec_qu2om_canon (q : Quat ℝ) (h : Quat.normSq q = 1) :
    ConvSpec.om2qu (Conv.qu2om q) = ConvSpec.canon q := omSpec_toMat_eq_canon q h
/-- `om2qu ∘ qu2om = ± id` (spec map, every unit quaternion, both hemispheres, angle 0 and π included) -/
theorem om2quSpec_qu2om (q : Quat ℝ) (h : Quat.normSq q = 1) :
    ConvSpec.om2qu (Conv.qu2om q) = q ∨ ConvSpec.om2qu (Conv.qu2om q) = Quat.neg q := by
  rw [om2quSpec_qu2om_canon q h]; exact canon_eq_or_neg q
/-- unit quaternions with the same matrix differ at most by sign -/
theorem qu2om_injective_up_to_sign (p q : Quat ℝ) (hp : Quat.normSq p = 1) (hq : Quat.normSq q = 1)
    (h : Conv.qu2om p = Conv.qu2om q) : p = q ∨ p = Quat.neg q := toMat_injective_up_to_sign p q hp hq h

/-- `om2qu ∘ qu2om = ± id` for the **code-shaped** kernel (thresholds on the squared quantities, repaired
two-fold branch), under the guard: each `4x²` is `≥ eps9` or the component `x` is exactly `0`. -/
theorem om2qu_qu2om (q : Quat ℝ) (h : Quat.normSq q = 1)
    (ga : OmGuard q.a) (gb : OmGuard q.b) (gc : OmGuard q.c) (gd : OmGuard q.d) :
    Conv.om2qu (Conv.qu2om q) = q ∨ Conv.om2qu (Conv.qu2om q) = Quat.neg q := by
  rw [Conv.qu2om, omCode_toMat_eq_canon q h ga gb gc gd]; exact canon_eq_or_neg q
/-- … and it agrees with the spec map there -/
theorem om2qu_eq_spec (q : Quat ℝ) (h : Quat.normSq q = 1)
    (ga : OmGuard q.a) (gb : OmGuard q.b) (gc : OmGuard q.c) (gd : OmGuard q.d) :
    Conv.om2qu (Conv.qu2om q) = ConvSpec.om2qu (Conv.qu2om q) := by
  rw [Conv.qu2om, omCode_toMat_eq_canon q h ga gb gc gd, omSpec_toMat_eq_canon q h]
/-- exact two-fold rotations (scalar part exactly 0, the repaired branch): round trip up to sign -/
theorem om2qu_qu2om_twofold (b c d : ℝ) (h : Quat.normSq (⟨0, b, c, d⟩ : Quat ℝ) = 1)
    (gb : OmGuard b) (gc : OmGuard c) (gd : OmGuard d) :
    Conv.om2qu (Conv.qu2om ⟨0, b, c, d⟩) = ⟨0, b, c, d⟩ ∨
      Conv.om2qu (Conv.qu2om ⟨0, b, c, d⟩) = Quat.neg ⟨0, b, c, d⟩ :=
  om2qu_qu2om _ h (Or.inr rfl) gb gc gd
/-- public wrappers: `from_matrix(to_matrix(q)) = ±q` for unit `q` -/
theorem fromMatrix_toMatrix (q : Quat ℝ) (h : Quat.normSq q = 1)
    (ga : OmGuard q.a) (gb : OmGuard q.b) (gc : OmGuard q.c) (gd : OmGuard q.d) :
    Conv.fromMatrix (Conv.toMatrix q) = q ∨ Conv.fromMatrix (Conv.toMatrix q) = Quat.neg q := by
  rw [Conv.fromMatrix, Conv.toMatrix, unit_of_normSq_one q h]; exact om2qu_qu2om q h ga gb gc gd

/-! ## Euler angles -/

/-- `eu2qu` returns a unit quaternion for all angles … -/
theorem eu2qu_unit (e : Euler ℝ) : Quat.normSq (Conv.eu2qu e) = 1 := Orix.eu2qu_unit e
/-- … with non-negative scalar part (the code's sign flip) … -/
theorem eu2qu_scalar_nonneg (e : Euler ℝ) : 0 ≤ (Conv.eu2qu e).a := Orix.eu2qu_scalar_nonneg e
/-- … whose matrix is the passive Bunge ZXZ product `Rz(φ2)·Rx(Φ)·Rz(φ1)` -/
theorem qu2om_eu2qu_bunge (e : Euler ℝ) :
    Conv.qu2om (Conv.eu2qu e) = Mat3.mul (ConvSpec.Rz e.phi2) (Mat3.mul (ConvSpec.Rx e.Phi) (ConvSpec.Rz e.phi1)) :=
  toMat_eu2qu e

/-- the `degrees` flag of `from_euler` only rescales the angles -/
theorem fromEuler_degrees_rescales (c2l : Bool) (e : Euler ℝ) :
    Conv.fromEuler c2l true e
      = Conv.fromEuler c2l false ⟨e.phi1 * (Real.pi / 180), e.Phi * (Real.pi / 180), e.phi2 * (Real.pi / 180)⟩ := by
  simp [Conv.fromEuler, Conv.deg2rad]
/-- the `degrees` flag of `to_euler` only rescales the angles -/
theorem toEuler_degrees_rescales (q : Quat ℝ) :
    Conv.toEuler true q = ⟨(Conv.toEuler false q).phi1 * (180 / Real.pi), (Conv.toEuler false q).Phi * (180 / Real.pi),
      (Conv.toEuler false q).phi2 * (180 / Real.pi)⟩ := by
  simp [Conv.toEuler, Conv.rad2deg]
/-- degrees out, degrees in: the same quaternion as through radians -/
theorem fromEuler_toEuler_degrees (c2l : Bool) (q : Quat ℝ) :
    Conv.fromEuler c2l true (Conv.toEuler true q) = Conv.fromEuler c2l false (Conv.toEuler false q) := by
  have hpi : Real.pi ≠ 0 := Real.pi_pos.ne'
  have e : ∀ x : ℝ, x * (180 / Real.pi) * (Real.pi / 180) = x := fun x => by field_simp
  simp [Conv.fromEuler, Conv.toEuler, Conv.deg2rad, Conv.rad2deg, e]

/-- the direction flag (`crystal2lab`) only inverts the rotation … -/
theorem fromEuler_direction_inverts (deg : Bool) (e : Euler ℝ) :
    Conv.fromEuler true deg e = Quat.inv (Conv.fromEuler false deg e) := by
  simp [Conv.fromEuler]
/-- … i.e. it transposes the orientation matrix -/
theorem fromEuler_direction_transposes (deg : Bool) (e : Euler ℝ) :
    Conv.qu2om (Conv.fromEuler true deg e) = Mat3.transpose (Conv.qu2om (Conv.fromEuler false deg e)) := by
  rw [fromEuler_direction_inverts]
  have hu : Quat.normSq (Conv.fromEuler false deg e) = 1 := by
    simp only [Conv.fromEuler, Bool.false_eq_true, if_false]; exact Orix.eu2qu_unit _
  rw [C02.inv_eq_conj _ hu]
  simp only [Conv.qu2om, Quat.toMat, Quat.conj, Mat3.transpose, lit_real, Nat.cast_ofNat]
  congr 1 <;> ring

/-- **ranges** (code-shaped kernel, all quaternions, no guard):
`φ1, φ2 ∈ [0, 2π)` and `Φ ∈ [0, π]` -/
theorem qu2eu_range (q : Quat ℝ) :
    (0 ≤ (Conv.qu2eu q).phi1 ∧ (Conv.qu2eu q).phi1 < 2 * Real.pi) ∧
    (0 ≤ (Conv.qu2eu q).Phi ∧ (Conv.qu2eu q).Phi ≤ Real.pi) ∧
    (0 ≤ (Conv.qu2eu q).phi2 ∧ (Conv.qu2eu q).phi2 < 2 * Real.pi) := by
  have h := qu2euWith_range (-(Scalar.lit 2)) q
  have h2 := qu2euWith_Phi_le_pi (-(Scalar.lit 2)) q
  rw [show (2 : ℝ) * Real.pi = Real.pi * 2 by ring]
  exact ⟨h.1, ⟨h.2.1.1, h2⟩, h.2.2⟩

/-- **the Euler angles of a quaternion denote the quaternion's own rotation** (spec map, every unit
quaternion, gimbal cases `Φ ∈ {0, π}` included) -/
theorem bunge_qu2euSpec (q : Quat ℝ) (h : Quat.normSq q = 1) :
    ConvSpec.bunge (ConvSpec.qu2eu q) = Conv.qu2om q := Orix.bunge_qu2euSpec q h
/-- **Euler round trip** `eu2qu (qu2eu q) = ±q`, spec `qu2eu`, code-shaped `eu2qu`, every unit quaternion -/
theorem eu2qu_qu2euSpec (q : Quat ℝ) (h : Quat.normSq q = 1) :
    Conv.eu2qu (ConvSpec.qu2eu q) = q ∨ Conv.eu2qu (ConvSpec.qu2eu q) = Quat.neg q := Orix.eu2qu_qu2euSpec q h

/-- Euler round trip for the **code-shaped** `qu2eu`, generic branch (`χ ≥ eps9`), when no angle falls
into the band that `eu[np.abs(eu) < eps9] = 0` snaps to zero -/
theorem eu2qu_qu2eu_generic (q : Quat ℝ) (h : Quat.normSq q = 1)
    (hχ : ¬ Real.sqrt ((q.a * q.a + q.d * q.d) * (q.b * q.b + q.c * q.c)) < 1 / 10 ^ 9)
    (g0 : ZeroGuard (ConvSpec.qu2eu q).Phi)
    (g1 : ZeroGuard (atan2
            ((q.b * q.d - q.a * q.c) / Real.sqrt ((q.a * q.a + q.d * q.d) * (q.b * q.b + q.c * q.c)))
            ((-q.a * q.b - q.c * q.d) / Real.sqrt ((q.a * q.a + q.d * q.d) * (q.b * q.b + q.c * q.c)))))
    (g2 : ZeroGuard (atan2
            ((q.a * q.c + q.b * q.d) / Real.sqrt ((q.a * q.a + q.d * q.d) * (q.b * q.b + q.c * q.c)))
            ((q.c * q.d - q.a * q.b) / Real.sqrt ((q.a * q.a + q.d * q.d) * (q.b * q.b + q.c * q.c))))) :
    Conv.eu2qu (Conv.qu2eu q) = q ∨ Conv.eu2qu (Conv.qu2eu q) = Quat.neg q := by
  rw [Conv.qu2eu, qu2euWith_eq_spec_generic _ q hχ g0 g1 g2]; exact Orix.eu2qu_qu2euSpec q h
/-- gimbal branch `Φ = 0` (`b = c = 0`): the code-shaped model round-trips -/
theorem eu2qu_qu2eu_gimbal0 (q : Quat ℝ) (h : Quat.normSq q = 1) (hb : q.b = 0) (hc : q.c = 0) :
    Conv.eu2qu (Conv.qu2eu q) = q ∨ Conv.eu2qu (Conv.qu2eu q) = Quat.neg q := by
  rw [Conv.qu2eu, qu2euWith_eq_spec_gimbal0 _ q hb hc]; exact Orix.eu2qu_qu2euSpec q h
/-- gimbal branch `Φ = π` (`a = d = 0`): the code-shaped model round-trips only under `b·c = 0` -/
theorem eu2qu_qu2eu_gimbalPi_partial (q : Quat ℝ) (h : Quat.normSq q = 1) (ha : q.a = 0) (hd : q.d = 0)
    (hbc : q.b * q.c = 0) :
    Conv.eu2qu (Conv.qu2eu q) = q ∨ Conv.eu2qu (Conv.qu2eu q) = Quat.neg q := by
  rw [qu2eu_eq_spec_gimbalPi_partial q h ha hd hbc]; exact Orix.eu2qu_qu2euSpec q h
/-- with the factor `+2` in that branch (instead of the code's `-2`) it round-trips for all `b, c` -/
theorem eu2qu_qu2euFixed_gimbalPi (q : Quat ℝ) (h : Quat.normSq q = 1) (ha : q.a = 0) (hd : q.d = 0) :
    Conv.eu2qu (Conv.qu2euWith 2 q) = q ∨ Conv.eu2qu (Conv.qu2euWith 2 q) = Quat.neg q := by
  rw [qu2euWith_two_eq_spec_gimbalPi q h ha hd]; exact Orix.eu2qu_qu2euSpec q h
/-- **proved counter-example for the code as it is**: at the unit quaternion `(0, 3/5, −4/5, 0)`
(rotation by π about `(3,−4,0)/5`) the Euler angles returned by the code-shaped `qu2eu` denote a
different rotation, so `eu2qu (qu2eu q)` is neither `q` nor `−q`. -/
theorem qu2eu_code_fails_at_pi :
    Quat.normSq (⟨0, 3 / 5, -4 / 5, 0⟩ : Quat ℝ) = 1 ∧
    Conv.eu2qu (Conv.qu2eu (⟨0, 3 / 5, -4 / 5, 0⟩ : Quat ℝ)) ≠ ⟨0, 3 / 5, -4 / 5, 0⟩ ∧
    Conv.eu2qu (Conv.qu2eu (⟨0, 3 / 5, -4 / 5, 0⟩ : Quat ℝ)) ≠ Quat.neg ⟨0, 3 / 5, -4 / 5, 0⟩ := by
  obtain ⟨h1, h2⟩ := qu2eu_code_counterexample
  have key : (Quat.toMat (Conv.eu2qu (Conv.qu2eu (⟨0, 3 / 5, -4 / 5, 0⟩ : Quat ℝ)))).m01 = 24 / 25 := by
    rw [toMat_eu2qu]; exact h1
  refine ⟨by simp only [Quat.normSq]; norm_num, ?_, ?_⟩
  · intro hc; rw [hc, h2] at key; norm_num at key
  · intro hc; rw [hc, toMat_neg, h2] at key; norm_num at key

/-! ## axis–angle, Rodrigues–Frank -/

/-- `ax2qu ∘ qu2ax = id` on unit quaternions with scalar part ≥ 0 (code-shaped kernels; guard: the
angle is outside both small-angle bands or the rotation is exactly the identity, and the scalar part is
outside the `eps9` band or exactly 0) -/
theorem ax2qu_qu2ax (q : Quat ℝ) (h : Quat.normSq q = 1) (ha : 0 ≤ q.a) (g : AxGuard q) :
    Conv.ax2qu (Conv.qu2ax q) = q := Orix.ax2qu_qu2ax q h ha g
/-- the rotation angle returned by `qu2ax` is in `[0, π]` for scalar part ≥ 0 (no guard) -/
theorem qu2ax_angle_range (q : Quat ℝ) (ha : 0 ≤ q.a) : 0 ≤ (Conv.qu2ax q).w ∧ (Conv.qu2ax q).w ≤ Real.pi :=
  Orix.qu2ax_angle_range q ha
/-- the public `to_axes_angles` (canonical sign first): every unit quaternion, both hemispheres,
round-trips up to sign and its angle is in `[0, π]` -/
theorem toAxesAngles_roundtrip (q : Quat ℝ) (h : Quat.normSq q = 1) (g : AxGuard (Conv.nonnegScalar q)) :
    (Conv.ax2qu (Conv.toAxAng q) = q ∨ Conv.ax2qu (Conv.toAxAng q) = Quat.neg q) ∧
      0 ≤ (Conv.toAxAng q).w ∧ (Conv.toAxAng q).w ≤ Real.pi := ax2qu_toAxAng q h g
/-- the `degrees` flag of `from_axes_angles` only rescales the angle -/
theorem fromAxesAngles_degrees_rescales (n : Vec3 ℝ) (w : ℝ) :
    Conv.fromAxesAngles true n w = Conv.fromAxesAngles false n (w * (Real.pi / 180)) := by
  simp [Conv.fromAxesAngles, Conv.deg2rad]

/-- plain Rodrigues vectors through the public wrappers (`to_rodrigues()` = `axis · tan(angle/2)` with the
`axis` / `angle` properties, `from_rodrigues(ρ)` = `from_axes_angles(ρ, 2·arctan‖ρ‖)`): round trip for every unit
quaternion with `0 < a < 1` whose angle is outside `ax2qu`'s `1e-8` band; the vector is `(b, c, d)/a` -/
theorem toRodrigues_eq (q : Quat ℝ) (h : Quat.normSq q = 1) (ha : 0 < q.a) (ha1 : q.a < 1) :
    Conv.toRodrigues q = ⟨q.b / q.a, q.c / q.a, q.d / q.a⟩ := toRodrigues_unit q h ha ha1
theorem fromRodrigues_toRodrigues (q : Quat ℝ) (h : Quat.normSq q = 1) (ha : 0 < q.a) (ha1 : q.a < 1)
    (g : 1 / 10 ^ 8 ≤ 2 * Real.arctan (Real.sqrt (1 - q.a ^ 2) / q.a)) :
    Conv.fromRodrigues (Conv.toRodrigues q) = q := Orix.fromRodrigues_toRodrigues q h ha ha1 g

/-- … and for a negative scalar part (`Quaternion.axis` flips the axis for every `a < 0`, as repaired): the
Rodrigues vector is that of `−q`, so the round trip returns `−q`, the same rotation -/
theorem fromRodrigues_toRodrigues_neg (q : Quat ℝ) (h : Quat.normSq q = 1) (ha : q.a < 0) (ha1 : -1 < q.a)
    (g : 1 / 10 ^ 8 ≤ 2 * Real.arctan (Real.sqrt (1 - q.a ^ 2) / -q.a)) :
    Conv.fromRodrigues (Conv.toRodrigues q) = Quat.neg q := by
  have hn : Quat.normSq (Quat.neg q) = 1 := by rw [normSq_neg]; exact h
  rw [toRodrigues_neg q h ha ha1]
  refine Orix.fromRodrigues_toRodrigues (Quat.neg q) hn (by simp only [Quat.neg]; linarith)
    (by simp only [Quat.neg]; linarith) ?_
  simpa [Quat.neg] using g

/-- `ro2ax ∘ ax2ro = id` for unit axes and angles in `[2·10⁻⁸, π − 10⁻³]` (code-shaped kernels) -/
theorem ro2ax_ax2ro (n : Vec3 ℝ) (w : ℝ) (hn : n.x * n.x + n.y * n.y + n.z * n.z = 1)
    (h0 : 2 / 10 ^ 8 ≤ w) (h1 : w ≤ Real.pi - 1 / 10 ^ 3) :
    Conv.ro2ax (Conv.ax2ro ⟨n, w⟩) = ⟨n, w⟩ := Orix.ro2ax_ax2ro n w hn h0 h1
/-- the documented cut-off of the code: an angle within `10⁻³` of π comes back as exactly π
(the Rodrigues–Frank magnitude is made infinite) -/
theorem ro2ax_ax2ro_cutoff (n : Vec3 ℝ) (w : ℝ) (h : |w - Real.pi| < 1 / 10 ^ 3) :
    Conv.ro2ax (Conv.ax2ro ⟨n, w⟩) = ⟨n, Real.pi⟩ := Orix.ro2ax_ax2ro_cutoff n w h
/-- without the cut-off (infinite exactly at π) the round trip holds on all of `[0, π]` -/
theorem ro2axSpec_ax2roSpec (n : Vec3 ℝ) (w : ℝ) (h0 : 0 ≤ w) (h1 : w ≤ Real.pi) :
    ConvSpec.ro2ax (ConvSpec.ax2ro ⟨n, w⟩) = ⟨n, w⟩ := Orix.ro2axSpec_ax2roSpec n w h0 h1

/-! ## homochoric -/

/-- `‖qu2ho q‖³ = 3(ω − sin ω)/4`, `ω = 2·arccos a` -/
theorem qu2ho_norm_cube (q : Quat ℝ) (h : Quat.normSq q = 1) (h1 : -1 < q.a) (h2 : q.a < 1)
    (hw : ¬ 2 * Real.arccos q.a < 1 / 10 ^ 9) :
    (Vec3.norm (Conv.qu2ho q)) ^ 3 = 3 * (2 * Real.arccos q.a - Real.sin (2 * Real.arccos q.a)) / 4 :=
  Orix.qu2ho_norm_cube q h h1 h2 hw
/-- homochoric length at most `(3π/4)^{1/3}` for scalar part ≥ 0 -/
theorem qu2ho_norm_le (q : Quat ℝ) (h : Quat.normSq q = 1) (ha : 0 ≤ q.a) :
    Vec3.norm (Conv.qu2ho q) ≤ (3 * Real.pi / 4) ^ ((1 : ℝ) / 3) := Orix.qu2ho_norm_le q h ha
/-- the homochoric vector is a non-negative multiple of the quaternion's vector part -/
theorem qu2ho_parallel (q : Quat ℝ) :
    ∃ k : ℝ, 0 ≤ k ∧ Conv.qu2ho q = Vec3.smul k ⟨q.b, q.c, q.d⟩ := Orix.qu2ho_parallel q
/-- the kernel is called by `to_homochoric` without canonicalising the sign: for a negative scalar part
the length exceeds the documented bound (`‖h‖³ > 3π/4`) -/
theorem qu2ho_too_long_of_neg (q : Quat ℝ) (h : Quat.normSq q = 1) (h1 : -1 < q.a) (h2 : q.a < 0) :
    3 * Real.pi / 4 < (Vec3.norm (Conv.toHomochoric q)) ^ 3 := by
  rw [Conv.toHomochoric, unit_of_normSq_one q h]; exact qu2ho_norm_gt_of_neg q h h1 h2

/-- the homochoric *inverse* of the code (otherwise a fitted polynomial, tied by correspondence only) maps vectors of
squared length below `1e-16` (rotation angle below `2·10⁻⁸`) to the identity -/
theorem fromHomochoric_small (h : Vec3 ℝ) (hs : h.x * h.x + h.y * h.y + h.z * h.z < 1 / 10 ^ 16) :
    Conv.ho2ax h = ⟨⟨0, 0, 1⟩, 0⟩ := ho2ax_small h hs

/-! ## non-vacuity: the hypotheses are met by concrete rotations -/

example : Quat.normSq (⟨1 / 2, 1 / 2, 1 / 2, 1 / 2⟩ : Quat ℝ) = 1 := by simp only [Quat.normSq]; norm_num
example : OmGuard (1 / 2 : ℝ) := Or.inl (by norm_num)
example : OmGuard (0 : ℝ) := Or.inr rfl
/-- the 3-fold rotation about [111] and its negative -/
example : Conv.om2qu (Conv.qu2om (⟨1 / 2, 1 / 2, 1 / 2, 1 / 2⟩ : Quat ℝ)) = ⟨1 / 2, 1 / 2, 1 / 2, 1 / 2⟩ ∨
    Conv.om2qu (Conv.qu2om (⟨1 / 2, 1 / 2, 1 / 2, 1 / 2⟩ : Quat ℝ)) = Quat.neg ⟨1 / 2, 1 / 2, 1 / 2, 1 / 2⟩ :=
  om2qu_qu2om _ (by simp only [Quat.normSq]; norm_num) (Or.inl (by norm_num)) (Or.inl (by norm_num))
    (Or.inl (by norm_num)) (Or.inl (by norm_num))
/-- identity -/
example : Conv.om2qu (Conv.qu2om (⟨1, 0, 0, 0⟩ : Quat ℝ)) = ⟨1, 0, 0, 0⟩ ∨
    Conv.om2qu (Conv.qu2om (⟨1, 0, 0, 0⟩ : Quat ℝ)) = Quat.neg ⟨1, 0, 0, 0⟩ :=
  om2qu_qu2om _ (by simp only [Quat.normSq]; norm_num) (Or.inl (by norm_num)) (Or.inr rfl) (Or.inr rfl) (Or.inr rfl)
/-- a π rotation with mixed-sign axis (the input of the repaired `from_matrix` defect) -/
example : Conv.om2qu (Conv.qu2om (⟨0, 3 / 5, -4 / 5, 0⟩ : Quat ℝ)) = ⟨0, 3 / 5, -4 / 5, 0⟩ ∨
    Conv.om2qu (Conv.qu2om (⟨0, 3 / 5, -4 / 5, 0⟩ : Quat ℝ)) = Quat.neg ⟨0, 3 / 5, -4 / 5, 0⟩ :=
  om2qu_qu2om_twofold _ _ _ (by simp only [Quat.normSq]; norm_num) (Or.inl (by norm_num)) (Or.inl (by norm_num))
    (Or.inr rfl)
/-- … and it really is the canonical representative `(0, 3/5, −4/5, 0)` itself -/
example : ConvSpec.canon (⟨0, 3 / 5, -4 / 5, 0⟩ : Quat ℝ) = ⟨0, 3 / 5, -4 / 5, 0⟩ := by
  rw [canon_real]; norm_num
/-- the guards of the axis–angle round trip hold at the two-fold rotation and at the identity -/
example : AxGuard (⟨0, 3 / 5, -4 / 5, 0⟩ : Quat ℝ) := by
  refine ⟨Or.inl ?_, Or.inr rfl⟩
  simp only [Real.arccos_zero]
  have := Real.two_le_pi
  have : (1 : ℝ) / 10 ^ 8 < 1 := by norm_num
  linarith
example : AxGuard (⟨1, 0, 0, 0⟩ : Quat ℝ) := ⟨Or.inr rfl, Or.inl (by norm_num)⟩
/-- Euler: the identity is a gimbal case (`Φ = 0`) and round-trips -/
example : Conv.eu2qu (Conv.qu2eu (⟨1, 0, 0, 0⟩ : Quat ℝ)) = ⟨1, 0, 0, 0⟩ ∨
    Conv.eu2qu (Conv.qu2eu (⟨1, 0, 0, 0⟩ : Quat ℝ)) = Quat.neg ⟨1, 0, 0, 0⟩ :=
  eu2qu_qu2eu_gimbal0 _ (by simp only [Quat.normSq]; norm_num) rfl rfl
/-- Euler: a π rotation about `x` is the other gimbal case (`Φ = π`, `b·c = 0`) and round-trips -/
example : Conv.eu2qu (Conv.qu2eu (⟨0, 1, 0, 0⟩ : Quat ℝ)) = ⟨0, 1, 0, 0⟩ ∨
    Conv.eu2qu (Conv.qu2eu (⟨0, 1, 0, 0⟩ : Quat ℝ)) = Quat.neg ⟨0, 1, 0, 0⟩ :=
  eu2qu_qu2eu_gimbalPi_partial _ (by simp only [Quat.normSq]; norm_num) rfl rfl (by norm_num)
/-- Rodrigues–Frank: a rotation by 1 rad about `z` lies in the admissible interval and round-trips -/
example : Conv.ro2ax (Conv.ax2ro (⟨⟨0, 0, 1⟩, 1⟩ : AxAng ℝ)) = ⟨⟨0, 0, 1⟩, 1⟩ :=
  ro2ax_ax2ro _ _ (by norm_num) (by norm_num) (by
    have := Real.two_le_pi
    have : (1 : ℝ) / 10 ^ 3 < 1 := by norm_num
    linarith)

end Orix.C01
