import OrixModel.Codec.H5
import OrixGen.IoTables
/- C13 — placeholder while the model is validated against the implementation -/
namespace Orix.C13
end Orix.C13
