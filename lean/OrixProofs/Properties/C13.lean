import OrixProofs.Lemmas.CodecH5Gen
set_option linter.unusedVariables false
/-
C13 — orix HDF5 save/load is lossless.

These are theorems about the *format model* (`OrixModel/Codec/H5.lean`):
  `write = store ∘ dict2hdf5group ∘ crystalmap2dict`,  `read = CrystalMap.__init__ ∘ dict2crystalmap ∘ hdf5group2dict`
over records with opaque integer payloads (bit patterns with dtype tags; strings as code points written as
UTF-8 into `S<len+1>` datasets and read back as latin-1; group links presented in alphabetical order).
Rotations travel as their three Euler-angle arrays, verbatim; that `from_euler ∘ to_euler` is the identity on
rotations is C01's theorem, not restated here.  The link to orix is the correspondence check
(harness/props/c13.py): raw HDF5 tree vs `write m`, loaded map vs `read (write m)`, second cycle; key names,
markers and symmetry tables are regenerated from the source on every run (`OrixGen.IoTables`) and tied to the
model by the obligations in `Lemmas/CodecH5Gen.lean`.

Purity of the writer ("saving does not modify the map") has no content in a functional model — `write` is a
function of the record; it is checked on the implementation by the harness (state before = state after).
-/
namespace Orix.C13
open Orix.Codec Orix.Codec.H5 Orix.Gen.Io

/-
Full statement: for every map, `read (write m) = some m`.  It does not hold for the code as it is (proved
counter-examples below).  Proved: the statement for all records satisfying the explicit decidable predicate
`H5WF` (every conjunct is a candidate finding and is run against the real code at an excluded point).
-/

/-- **Round trip**: for every well-formed record — any number of points ≥ 2, any mask, any coordinates (or none),
any number of rotations per point, any properties of any dtype and shape, any phases with or without space/point
group, any number of atoms — the writer succeeds and the reader returns the record; the properties come back as the
same set of (name, array) pairs (HDF5 presents them in alphabetical order). -/
theorem read_write_partial (ni : PhaseRec) (e : Derived) (m : MapRec) (hwf : H5WF genTables ni m)
    (hid : arrOK e.idArr) :
    ∃ t ps, write e m = some t ∧ ps.Perm m.props ∧ read genTables ni t = some { m with props := ps } :=
  read_write_main genTables ni e m hwf hid

/-- **Second cycle**: saving and loading the loaded map gives the same record again. -/
theorem second_cycle (ni : PhaseRec) (e : Derived) (m : MapRec) (hwf : H5WF genTables ni m)
    (hid : arrOK e.idArr) :
    ∃ t m₁ t₁ ps, write e m = some t ∧ read genTables ni t = some m₁ ∧ write e m₁ = some t₁ ∧
      ps.Perm m.props ∧ read genTables ni t₁ = some { m with props := ps } := by
  obtain ⟨t, ps, hw, hp, hr⟩ := read_write_main genTables ni e m hwf hid
  obtain ⟨t₁, ps₁, hw₁, hp₁, hr₁⟩ :=
    read_write_main genTables ni e { m with props := ps } (H5WF_perm genTables ni m ps hp hwf) hid
  exact ⟨t, _, t₁, ps₁, hw, hr, hw₁, hp₁.trans hp, hr₁⟩

/-- the conjunct `phases_consistent` of `H5WF` in declarative form: a phase list consisting of the `not_indexed`
phase (exactly as `add_not_indexed` creates it, present iff some point has phase id -1) followed by phases with
strictly increasing non-negative ids that are exactly the ids occurring in the data is kept by the constructor -/
theorem phases_consistent_of (ni : PhaseRec) (hni : ni.id = -1) (ids : List Int) (rp : List PhaseRec) (has : Bool)
    (hs : (rp.map (·.id)).Pairwise (· < ·)) (hpos : ∀ p ∈ rp, -1 < p.id)
    (hm : ∀ a, a ∈ ids ↔ (a = -1 ∧ has = true) ∨ a ∈ rp.map (·.id)) :
    reconcileRec ni ids ((if has then [ni] else []) ++ rp) = some ((if has then [ni] else []) ++ rp) :=
  reconcileRec_consistent ni hni ids rp has hs hpos hm

/-- **The generic codec** (`dict2hdf5group` → file → `hdf5group2dict`) on *any* nested dict without `None`:
it sorts every level by key and applies the two lossy leaf rules (`normVal`: an array whose first axis has
length 1 loses that axis, strings are re-decoded), nothing else. -/
theorem generic_codec (t : PyTree) (h : clean t = true) :
    ∃ f, writeTree t = some f ∧ readTree (storeTree f) = roundTree t :=
  codec_tree t h

/-- the two lossy rules are harmless exactly on these leaves -/
theorem leaf_rules (a : Arr) (s : Str) :
    (a.shape.head? ≠ some 1 → normVal (.arr a) = .arr a) ∧
    ((∀ c ∈ s, 0 < c ∧ c < 128) → normVal (.str s) = .str s) :=
  ⟨arr_stable a, str_stable s⟩

/-- numbered children (`atoms/0 … atoms/9`) are stored in numeric order; `atoms/10` sorts before `atoms/2` -/
theorem numbered_children_order :
    (∀ j < 10, ∀ i ≤ j, Key.le (.n (i : Nat)) (.n (j : Nat)) = true) ∧
    Key.le (.n 10) (.n 2) = true ∧ Key.le (.n 2) (.n 10) = false :=
  ⟨keyLe_small, keyLe_ten_two⟩

/-- every space group survives: `Phase(space_group = n, point_group = None)` (what the reader calls since
99d4b72) gives the space group and its derived point group, for n = 1 … 230 (kernel-decided on the generated
tables) -/
theorem space_groups_surviving :
    ((List.range' 1 230).all fun n =>
      mkPhase genTables (some n) none == some (some n, sgPG genTables n)) = true :=
  all_space_groups_survive

/-- pre-fix reader (`Phase(space_group = n, point_group = <stored name>)`): failed for exactly 3 … 9 -/
theorem space_groups_surviving_prefix :
    ((List.range' 1 230).filter fun n =>
      !(mkPhase genTables (some n) (sgPG genTables n) == some (some n, sgPG genTables n))) = [3, 4, 5, 6, 7, 8, 9] :=
  bad_space_groups_prefix

/-! ### proved counter-examples: every conjunct of `H5WF` is needed -/

def f64 : Nat := 1
def i64 : Nat := 4
def b8 : Nat := 12

/-- `Phase(name="not_indexed", color="white")` with a default structure (payloads are bit patterns) -/
def niPhase : PhaseRec :=
  { id := -1, name := S "not_indexed", sg := none, pg := none, color := S "w",
    abcABG := ⟨f64, [6], [1, 1, 1, 90, 90, 90]⟩, baserot := ⟨f64, [3, 3], [1, 0, 0, 0, 1, 0, 0, 0, 1]⟩, atoms := [] }

def phaseA : PhaseRec :=
  { id := 0, name := S "a", sg := some 225, pg := some (S "m-3m"), color := S "tab:blue",
    abcABG := ⟨f64, [6], [4, 4, 4, 90, 90, 90]⟩, baserot := ⟨f64, [3, 3], [1, 0, 0, 0, 1, 0, 0, 0, 1]⟩, atoms := [] }

/-- a map of `n` points along x, all of phase `p` -/
def lineMap (n : Nat) (p : PhaseRec) (props : List PropRec) : MapRec :=
  { y := none, x := some ⟨i64, [n], (List.range n).map (fun i => (i : Int))⟩,
    inData := ⟨b8, [n], List.replicate n 1⟩, phaseId := ⟨i64, [n], List.replicate n p.id⟩,
    phi1 := ⟨f64, [n], (List.range n).map (fun i => (100 + i : Int))⟩,
    phi := ⟨f64, [n], (List.range n).map (fun i => (200 + i : Int))⟩,
    phi2 := ⟨f64, [n], (List.range n).map (fun i => (300 + i : Int))⟩,
    props := props, scanUnit := S "um", phases := [p] }

def derived (n : Nat) : Derived :=
  { ny := 1, nx := n, yStep := (i64, 0), xStep := (i64, 1), rpp := 1,
    idArr := ⟨i64, [n], (List.range n).map (fun i => (i : Int))⟩, intDt := i64 }

def cycle (n : Nat) (m : MapRec) : Option MapRec := (write (derived n) m).bind (read genTables niPhase)

/-- non-vacuity: an ordinary three-point map with one property comes back unchanged … -/
example : cycle 3 (lineMap 3 phaseA [⟨S "iq", ⟨f64, [3], [7, 8, 9]⟩⟩])
    = some (lineMap 3 phaseA [⟨S "iq", ⟨f64, [3], [7, 8, 9]⟩⟩]) := by decide +kernel

/-- … and it satisfies the hypotheses of the theorem -/
example : H5WF genTables niPhase (lineMap 3 phaseA [⟨S "iq", ⟨f64, [3], [7, 8, 9]⟩⟩]) where
  unit := by decide
  y := by intro a h; cases h
  x := by intro a h; cases h; decide
  inData := by decide
  phaseId := by decide
  phi1 := by decide
  phi := by decide
  phi2 := by decide
  props_arr := by decide
  props_names := by decide +kernel
  props_nodup := by decide
  phases := by
    intro p hp
    have : p = phaseA := by simpa [lineMap] using hp
    subst this
    exact { name := by decide, color := by decide, abc := by decide, baserot := by decide,
            atoms := (by intro a ha; cases ha),
            pgName := (by intro g hg; cases hg; decide +kernel), sym := (by decide +kernel) }
  phases_sorted := by decide
  phases_consistent := by decide +kernel

/-- **Counter-example (finding)**: a single-point map cannot be loaded — every length-1 dataset comes back as a
scalar. -/
theorem single_point_counterexample : cycle 1 (lineMap 1 phaseA []) = none := by decide +kernel

/-- **Counter-example (finding)**: a property called `phi1` silently replaces the first Euler angles. -/
theorem reserved_name_counterexample :
    (cycle 3 (lineMap 3 phaseA [⟨S "phi1", ⟨f64, [3], [7, 8, 9]⟩⟩])).map (fun m => (m.phi1.vals, m.props))
      = some ([7, 8, 9], []) := by decide +kernel

/-- **Counter-example (finding)**: a phase name with a non-ASCII character is written as UTF-8 and decoded as
latin-1: "é" (U+00E9) comes back as "Ã©". -/
theorem non_ascii_counterexample :
    (cycle 3 (lineMap 3 { phaseA with name := [233] } [])).map (fun m => m.phases.map (·.name))
      = some [[195, 169]] := by decide +kernel

def atomI (i : Nat) : AtomRec :=
  { element := S "Al", label := S "", occDt := f64, occ := 1, xyz := ⟨f64, [3], [i, 0, 0]⟩,
    u := ⟨f64, [3, 3], [0, 0, 0, 0, 0, 0, 0, 0, 0]⟩ }

/-- with eleven atoms the atoms come back in their order (fixed in 055282c: sorted by `int(key)`) … -/
example :
    (cycle 3 (lineMap 3 { phaseA with atoms := (List.range 11).map atomI } [])).map
        (fun m => m.phases.map fun p => p.atoms.map fun a => a.xyz.vals.head?)
      = some [(List.range 11).map fun i => some (i : Int)] := by
  decide +kernel

/-- … whereas the pre-fix reader (`atomsInFileOrderPreFix`: atoms in the order the file lists `atoms/<i>`)
returned 0, 1, 10, 2, 3, … -/
theorem eleven_atoms_prefix_counterexample :
    (atomsInFileOrderPreFix (sortK (roundItems ((enumFrom 0 ((List.range 11).map atomI)).map
        fun (ia : Nat × AtomRec) => (Key.n ia.1, atom2dict ia.2))))).map (fun l => l.map fun a => a.xyz.vals.head?)
      = some [some 0, some 1, some 10, some 2, some 3, some 4, some 5, some 6, some 7, some 8, some 9] := by
  decide +kernel

/-- space groups 5 (C2, point group "2") and 6 (Pm, point group "m") come back unchanged (fixed in 99d4b72;
before, "2" was resolved as the alias of 2/m and "m" raised: `space_groups_surviving_prefix`) -/
example :
    (cycle 3 (lineMap 3 { phaseA with sg := some 5, pg := some (S "2") } [])).map
        (fun m => m.phases.map fun p => (p.sg, p.pg)) = some [(some 5, some (S "2"))] ∧
    (cycle 3 (lineMap 3 { phaseA with sg := some 6, pg := some (S "m") } [])).map
        (fun m => m.phases.map fun p => (p.sg, p.pg)) = some [(some 6, some (S "m"))] := by
  decide +kernel

/-- **Counter-example**: a phase of the list without points is dropped by `CrystalMap.__init__`. -/
theorem unused_phase_counterexample :
    (cycle 3 { lineMap 3 phaseA [] with phases := [phaseA, { phaseA with id := 1, name := S "b" }] }).map
        (fun m => m.phases.map (·.name)) = some [S "a"] := by decide +kernel

end Orix.C13
