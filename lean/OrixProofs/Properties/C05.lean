import OrixProofs.Lemmas.Disori
import OrixProofs.Properties.C04
import OrixModel.Disori
import Mathlib.Tactic.FieldSimp
/-
C05 — fundamental-zone reduction returns a minimal-angle member of the symmetry orbit.

Misorientations `M` with symmetries `(Gl, Gr)` have the equivalents `gl·M·gr`.  The rotation angle of a unit
quaternion is `2·arccos|a|`, antitone in `|a|`, so "smallest angle in the orbit" is "largest `|Re|` in the orbit".
What is proved here, for all `M` and all finite rotation groups:
  * the large cell IS the minimal-angle set: `|Re(gl·M·gr)| ≤ |Re M|` for all operations  ⇔  `|M·d̄| ≤ |M·1|` for all
    distinguished points `d = gr·gl` (the Voronoi cell of the identity among the distinguished points);
  * the reduction loop ("first pair whose image is inside the region") returns a member of the orbit, and — given
    that the region lies in the large cell — one of minimal angle; it is idempotent on results that lie inside;
  * the decision table of `get_proper_groups`, with the `NotImplementedError` branch as an explicit guard.
That the region orix constructs (large-cell normals pruned by vertices, intersected with the axis fundamental zone of
the common subgroup) lies in the large cell and meets every orbit is NOT proved: it is measured by the correspondence
check against a brute-force minimum over the orbit (clause "partial").
-/
namespace Orix.C05
open Orix Orix.Dis
open Orix.Disori (ProperChoice properGroups)

/-- real part as a dot product with the identity -/
theorem re_eq_dot_one (q : Quat ℝ) : q.a = Quat.dot q Quat.one := by
  simp [Quat.dot, Quat.one]

/-- cyclic trace: `Re(gl·M·gr) = M · conj(gr·gl)` -/
theorem re_two_sided (gl M gr : Quat ℝ) :
    (Quat.mul (Quat.mul gl M) gr).a = Quat.dot M (Quat.conj (Quat.mul gr gl)) := by
  simp only [Quat.mul, Quat.conj, Quat.dot]; ring

/-- LARGE CELL = MINIMAL-ANGLE SET.  `D` is the list of distinguished points: every product `gr·gl` is in it up to
sign, and it contains nothing else. -/
theorem large_cell_iff_max_re {Gl Gr D : List (Quat ℝ)}
    (hsound : ∀ d ∈ D, ∃ gl ∈ Gl, ∃ gr ∈ Gr, PM d (Quat.mul gr gl))
    (hcomplete : ∀ gl ∈ Gl, ∀ gr ∈ Gr, ∃ d ∈ D, PM d (Quat.mul gr gl)) (M : Quat ℝ) :
    (∀ gl ∈ Gl, ∀ gr ∈ Gr, |(Quat.mul (Quat.mul gl M) gr).a| ≤ |M.a|) ↔
      (∀ d ∈ D, |Quat.dot M (Quat.conj d)| ≤ |Quat.dot M Quat.one|) := by
  have key : ∀ d x : Quat ℝ, PM d x → |Quat.dot M (Quat.conj d)| = |Quat.dot M (Quat.conj x)| := by
    intro d x h
    rcases h with h | h
    · rw [h]
    · rw [h, conj_neg, dot_neg_right, abs_neg]
  constructor
  · intro h d hd
    obtain ⟨gl, hgl, gr, hgr, hpm⟩ := hsound d hd
    rw [key d _ hpm, ← re_two_sided, ← re_eq_dot_one]
    exact h gl hgl gr hgr
  · intro h gl hgl gr hgr
    obtain ⟨d, hd, hpm⟩ := hcomplete gl hgl gr hgr
    rw [re_two_sided, ← key d _ hpm, re_eq_dot_one M]
    exact h d hd

/-- the large-cell walls of a distinguished point `d` as 4-D normals: `1 + d` and `1 − d`
(in Rodrigues space these are the planes `n·tan(ω/4)` and `−n·cot(ω/4)` that `_get_large_cell_normals` builds:
`(s, (1−c)n) ∝ 1 + d` and `(s, −(1+c)n) ∝ 1 − d` for `d = (c, s·n)`, `s > 0`) -/
noncomputable def wallPlus (d : Quat ℝ) : Quat ℝ := ⟨1 + d.a, d.b, d.c, d.d⟩
noncomputable def wallMinus (d : Quat ℝ) : Quat ℝ := ⟨1 - d.a, -d.b, -d.c, -d.d⟩

/-- the quarter-angle identity behind the Rodrigues planes: for `d = (c, s·n)` with `c² + s² = 1`, `s ≠ 0`:
`tan(ω/4) = (1 − c)/s` and `cot(ω/4) = (1 + c)/s` are reciprocal -/
theorem quarter_angle_planes (c s : ℝ) (h : c ^ 2 + s ^ 2 = 1) (hs : s ≠ 0) : (1 - c) / s * ((1 + c) / s) = 1 := by
  field_simp
  nlinarith

/-- UNPRUNED REGION ⊆ LARGE CELL: if for every distinguished point `d` positive multiples of both walls `1 ± d` are among
the region normals, then every `M` inside the region (all normal products ≥ 0, or all ≤ 0 — `OrientationRegion.__gt__`
with eps = 0) satisfies `|M·d| ≤ |Re M|` for all distinguished points, i.e. (`large_cell_iff_max_re`) has the smallest
rotation angle of its orbit. -/
theorem inside_unpruned_region_in_large_cell {D normals : List (Quat ℝ)}
    (hw : ∀ d ∈ D, ∃ k1 k2 : ℝ, 0 < k1 ∧ 0 < k2 ∧ Quat.scale k1 (wallPlus d) ∈ normals ∧
      Quat.scale k2 (wallMinus d) ∈ normals)
    (M : Quat ℝ) (hin : (∀ n ∈ normals, 0 ≤ Quat.dot n M) ∨ (∀ n ∈ normals, Quat.dot n M ≤ 0)) :
    ∀ d ∈ D, |Quat.dot M d| ≤ |M.a| := by
  intro d hd
  obtain ⟨k1, k2, h1, h2, m1, m2⟩ := hw d hd
  have e1 : Quat.dot (Quat.scale k1 (wallPlus d)) M = k1 * (M.a + Quat.dot M d) := by
    simp only [Quat.dot, Quat.scale, wallPlus]; ring
  have e2 : Quat.dot (Quat.scale k2 (wallMinus d)) M = k2 * (M.a - Quat.dot M d) := by
    simp only [Quat.dot, Quat.scale, wallMinus]; ring
  rcases hin with h | h
  · have a1 := h _ m1
    have a2 := h _ m2
    rw [e1] at a1
    rw [e2] at a2
    have b1 : 0 ≤ M.a + Quat.dot M d := by
      by_contra hc
      have := mul_neg_of_pos_of_neg h1 (lt_of_not_ge hc)
      linarith
    have b2 : 0 ≤ M.a - Quat.dot M d := by
      by_contra hc
      have := mul_neg_of_pos_of_neg h2 (lt_of_not_ge hc)
      linarith
    rw [abs_le]
    have : M.a ≤ |M.a| := le_abs_self _
    constructor <;> linarith
  · have a1 := h _ m1
    have a2 := h _ m2
    rw [e1] at a1
    rw [e2] at a2
    have b1 : M.a + Quat.dot M d ≤ 0 := by
      by_contra hc
      have := mul_pos h1 (lt_of_not_ge hc)
      linarith
    have b2 : M.a - Quat.dot M d ≤ 0 := by
      by_contra hc
      have := mul_pos h2 (lt_of_not_ge hc)
      linarith
    rw [abs_le]
    have : -M.a ≤ |M.a| := neg_le_abs _
    constructor <;> linarith

/-- the rotation angle `2·arccos|a|` of a unit quaternion is antitone in `|a|` -/
noncomputable def angleOf (q : Quat ℝ) : ℝ := 2 * Real.arccos |q.a|

theorem angle_le_of_re_le {p q : Quat ℝ} (h : |p.a| ≤ |q.a|) : angleOf q ≤ angleOf p := by
  unfold angleOf
  have := Real.arccos_le_arccos h
  linarith

/-! ### the reduction loop -/

/-- `map_into_symmetry_reduced_zone` tries the pairs `(gl, gr)` in order and keeps the first image that is inside
the region; if none is, the last image stays (the code's `o_inside[outside] = o_transformed`). -/
def firstInside {α : Type} (inside : α → Bool) : List α → Option α
  | [] => none
  | [x] => some x
  | x :: y :: r => if inside x then some x else firstInside inside (y :: r)

theorem firstInside_mem {α : Type} (inside : α → Bool) : ∀ (l : List α) (x : α), firstInside inside l = some x → x ∈ l
  | [], _, h => by simp [firstInside] at h
  | [a], x, h => by simp only [firstInside, Option.some.injEq] at h; simp [h]
  | a :: b :: r, x, h => by
    simp only [firstInside] at h
    split at h
    · simp only [Option.some.injEq] at h; simp [h]
    · exact List.mem_cons_of_mem _ (firstInside_mem inside (b :: r) x h)

/-- if some image is inside, the loop returns an image that is inside -/
theorem firstInside_inside {α : Type} (inside : α → Bool) : ∀ (l : List α) (x : α),
    firstInside inside l = some x → (∃ y ∈ l, inside y = true) → inside x = true
  | [], _, h, _ => by simp [firstInside] at h
  | [a], x, h, hy => by
    simp only [firstInside, Option.some.injEq] at h
    obtain ⟨y, hy1, hy2⟩ := hy
    simp only [List.mem_singleton] at hy1
    rw [← h, ← hy1]; exact hy2
  | a :: b :: r, x, h, hy => by
    simp only [firstInside] at h
    split at h
    · simp only [Option.some.injEq] at h; rw [← h]; assumption
    · rename_i ha
      apply firstInside_inside inside (b :: r) x h
      obtain ⟨y, hy1, hy2⟩ := hy
      rcases List.mem_cons.mp hy1 with rfl | hy1'
      · exact absurd hy2 ha
      · exact ⟨y, hy1', hy2⟩

/-- the images `gl·M·gr` over the pairs, in the order of the loop -/
noncomputable def images (Gl Gr : List (Quat ℝ)) (M : Quat ℝ) : List (Quat ℝ) :=
  Gl.flatMap fun gl => Gr.map fun gr => Quat.mul (Quat.mul gl M) gr

/-- ORBIT MEMBERSHIP: the result is `gl·M·gr` for operations of the two groups. -/
theorem reduce_mem_orbit (inside : Quat ℝ → Bool) (Gl Gr : List (Quat ℝ)) (M R : Quat ℝ)
    (h : firstInside inside (images Gl Gr M) = some R) :
    ∃ gl ∈ Gl, ∃ gr ∈ Gr, R = Quat.mul (Quat.mul gl M) gr := by
  have hm := firstInside_mem inside _ _ h
  unfold images at hm
  obtain ⟨gl, hgl, hm'⟩ := List.mem_flatMap.mp hm
  obtain ⟨gr, hgr, rfl⟩ := List.mem_map.mp hm'
  exact ⟨gl, hgl, gr, hgr, rfl⟩

/-- MINIMALITY (conditional): if the region lies in the large cell of every orbit member (`hcell`) and some image
is inside the region (`hcover`), the result has the smallest rotation angle of the orbit.  `hcell` and `hcover`
are the two facts about orix's region construction that are measured, not proved. -/
theorem reduce_minimal (inside : Quat ℝ → Bool) (Gl Gr : List (Quat ℝ)) (M R : Quat ℝ)
    (h : firstInside inside (images Gl Gr M) = some R)
    (hcover : ∃ y ∈ images Gl Gr M, inside y = true)
    (hcell : ∀ y ∈ images Gl Gr M, inside y = true → ∀ z ∈ images Gl Gr M, |z.a| ≤ |y.a|) :
    ∀ z ∈ images Gl Gr M, angleOf R ≤ angleOf z := by
  intro z hz
  apply angle_le_of_re_le
  exact hcell R (firstInside_mem inside _ _ h) (firstInside_inside inside _ _ h hcover) z hz

/-- IDEMPOTENCE: a result that lies inside the region is returned unchanged when the identity pair comes first
(the identity is the first operation of every orix symmetry). -/
theorem reduce_idempotent (inside : Quat ℝ → Bool) (rest : List (Quat ℝ)) (R : Quat ℝ) (hR : inside R = true) :
    firstInside inside (R :: rest) = some R := by
  cases rest with
  | nil => rfl
  | cons b r => simp [firstInside, hR]

/-! ### `get_proper_groups` -/

/-- the table is total except exactly when both groups are improper and neither contains the inversion -/
theorem properGroups_none_iff (lp li rp ri : Bool) :
    properGroups lp li rp ri = none ↔ (lp = false ∧ rp = false ∧ li = false ∧ ri = false) := by
  cases lp <;> cases li <;> cases rp <;> cases ri <;> simp [properGroups]

/-- a proper group is never replaced -/
theorem properGroups_keeps_proper (li ri : Bool) : properGroups true li true ri = some (.self, .self) := by
  simp [properGroups]

/-! ### the difference `O₁ − O₂` (C04: "the angle of the difference") -/

/-- all operations of the list are proper -/
def AllProper (G : List (Rot ℝ)) : Prop := ∀ g ∈ G, g.improper = false

/-- `Re(g₁ (O₁ O₂*) g₂) = (g₁O₁)·(g₂* O₂)` -/
theorem re_image_eq_dot (g1 O1 O2 g2 : Quat ℝ) :
    (Quat.mul (Quat.mul g1 (Quat.mul O1 (Quat.conj O2))) g2).a
      = Quat.dot (Quat.mul (Quat.conj g2) O2) (Quat.mul g1 O1) := by
  simp only [Quat.mul, Quat.conj, Quat.dot]; ring

theorem abs_re_image_pm {g1 O1 O2 g2 s : Quat ℝ} (hs : s = Quat.conj g2 ∨ s = Quat.neg (Quat.conj g2)) :
    |(Quat.mul (Quat.mul g1 (Quat.mul O1 (Quat.conj O2))) g2).a| = |Quat.dot (Quat.mul s O2) (Quat.mul g1 O1)| := by
  rw [re_image_eq_dot]
  rcases hs with h | h
  · rw [h]
  · rw [h]
    have : Quat.dot (Quat.mul (Quat.neg (Quat.conj g2)) O2) (Quat.mul g1 O1)
        = - Quat.dot (Quat.mul (Quat.conj g2) O2) (Quat.mul g1 O1) := by
      simp only [Quat.mul, Quat.conj, Quat.dot, Quat.neg]; ring
    rw [this, abs_neg]

/-- THE DIFFERENCE `O₁ − O₂` (C04's clause "the angle of the difference"): over the orbit `g₁·(O₁O₂*)·g₂` of the
misorientation `O₁·O₂⁻¹` under two proper groups, the largest `|Re|` IS the brute-force maximal dot product over pairs of
equivalent orientations. -/
theorem difference_maxre_eq_bruteDot {G1 G2 : List (Rot ℝ)} (h1 : AllProper G1) (h2 : AllProper G2)
    (hG2 : IsRotGroup G2) (O1 O2 : Rot ℝ) (hO : O1.improper = O2.improper) :
    maxL ((images (G1.map (·.q)) (G2.map (·.q)) (Quat.mul O1.q (Quat.conj O2.q))).map fun z => |z.a|)
      = C04.bruteDot G1 G2 O1 O2 := by
  have flag : ∀ g1 ∈ G1, ∀ s ∈ G2, xor (xor s.improper O2.improper) (xor g1.improper O1.improper) = false := by
    intro g1 hg1 s hs
    rw [h1 g1 hg1, h2 s hs, hO]; cases O2.improper <;> rfl
  unfold C04.bruteDot
  apply maxL_eq_of_cofinal
  · intro v hv
    obtain ⟨z, hz, rfl⟩ := List.mem_map.mp hv
    unfold images at hz
    obtain ⟨q1, hq1, hz'⟩ := List.mem_flatMap.mp hz
    obtain ⟨q2, hq2, rfl⟩ := List.mem_map.mp hz'
    obtain ⟨g1, hg1, rfl⟩ := List.mem_map.mp hq1
    obtain ⟨g2, hg2, rfl⟩ := List.mem_map.mp hq2
    obtain ⟨s, hs, hsi, hsq⟩ := hG2.inv_mem g2 hg2
    refine ⟨rdot (Rot.mul s O2) (Rot.mul g1 O1),
      List.mem_map.mpr ⟨(g1, s), C04.mem_pairs.mpr ⟨hg1, hs⟩, rfl⟩, ?_⟩
    have hf := flag g1 hg1 s hs
    unfold rdot
    simp only [Rot.mul, hf, cond_false]
    rw [abs_re_image_pm (s := s.q) (by simpa [rconj] using hsq)]
  · intro w hw
    obtain ⟨p, hp, rfl⟩ := List.mem_map.mp hw
    obtain ⟨hp1, hp2⟩ := C04.mem_pairs.mp hp
    obtain ⟨s, hs, hsi, hsq⟩ := hG2.inv_mem p.2 hp2
    refine ⟨|(Quat.mul (Quat.mul p.1.q (Quat.mul O1.q (Quat.conj O2.q))) s.q).a|, ?_, ?_⟩
    · apply List.mem_map.mpr
      refine ⟨_, ?_, rfl⟩
      unfold images
      exact List.mem_flatMap.mpr ⟨p.1.q, List.mem_map.mpr ⟨p.1, hp1, rfl⟩,
        List.mem_map.mpr ⟨s.q, List.mem_map.mpr ⟨s, hs, rfl⟩, rfl⟩⟩
    · have hf := flag p.1 hp1 p.2 hp2
      unfold rdot
      simp only [Rot.mul, hf, cond_false]
      have hpq : p.2.q = Quat.conj s.q ∨ p.2.q = Quat.neg (Quat.conj s.q) := by
        have hsq' : s.q = Quat.conj p.2.q ∨ s.q = Quat.neg (Quat.conj p.2.q) := by simpa [rconj] using hsq
        rcases hsq' with h | h
        · left; rw [h, conj_conj]
        · right; rw [h]; cases p.2.q; simp [Quat.conj, Quat.neg]
      rw [abs_re_image_pm (s := p.2.q) hpq]

/-- COROLLARY (with C05's `reduce_minimal` hypotheses): the representative the reduction loop returns for `O₁ − O₂` has
`|Re R|` equal to the brute-force maximal dot product, i.e. its rotation angle `2·arccos|Re R|` is the minimum over
all pairs of symmetrically equivalent orientations. -/
theorem difference_angle_is_brute_minimum {G1 G2 : List (Rot ℝ)} (h1 : AllProper G1) (h2 : AllProper G2)
    (hG2 : IsRotGroup G2) (O1 O2 : Rot ℝ) (hO : O1.improper = O2.improper)
    (inside : Quat ℝ → Bool) (R : Quat ℝ)
    (h : firstInside inside (images (G1.map (·.q)) (G2.map (·.q)) (Quat.mul O1.q (Quat.conj O2.q))) = some R)
    (hcover : ∃ y ∈ images (G1.map (·.q)) (G2.map (·.q)) (Quat.mul O1.q (Quat.conj O2.q)), inside y = true)
    (hcell : ∀ y ∈ images (G1.map (·.q)) (G2.map (·.q)) (Quat.mul O1.q (Quat.conj O2.q)), inside y = true →
      ∀ z ∈ images (G1.map (·.q)) (G2.map (·.q)) (Quat.mul O1.q (Quat.conj O2.q)), |z.a| ≤ |y.a|) :
    |R.a| = C04.bruteDot G1 G2 O1 O2 := by
  rw [← difference_maxre_eq_bruteDot h1 h2 hG2 O1 O2 hO]
  have hm := firstInside_mem inside _ _ h
  have hi := firstInside_inside inside _ _ h hcover
  apply le_antisymm
  · exact le_maxL_of_mem (List.mem_map.mpr ⟨R, hm, rfl⟩)
  · apply maxL_le (abs_nonneg _)
    intro v hv
    obtain ⟨z, hz, rfl⟩ := List.mem_map.mp hv
    exact hcell R hm hi z hz


/-! non-vacuity -/
example : AllProper [⟨Quat.one, false⟩] := by intro g hg; simp at hg; rw [hg]

example : firstInside (fun n : Nat => decide (n > 2)) [1, 5, 7] = some 5 := by decide
example : firstInside (fun n : Nat => decide (n > 9)) [1, 5, 7] = some 7 := by decide

end Orix.C05
