import Mathlib.Tactic.Ring
import Mathlib.Tactic.Linarith
import Mathlib.Tactic.FieldSimp
import Mathlib.Tactic.NormNum
import OrixProofs.Lemmas.RealScalar
import OrixProofs.Properties.C07
import OrixProofs.Properties.C03
import OrixModel.Color
/-
C08 — inverse pole figure colours respect crystal symmetry.

The colour of a direction is `F (project v)`: a function of the direction's position in the fundamental
sector of the Laue group.  The symmetry clause is therefore inherited from C07 (all equivalents project to
the same direction off the boundary); the finiteness/range clause is algebra of `hsl_to_hsv` and HSV→RGB.
The vertex/centre colours depend on the 1000-step numeric azimuth table of `_correct_azimuth` and are
measured by the correspondence check, not proved.
-/
namespace Orix.C08
open Orix Orix.Grp Orix.Gen Orix.Color

/-- SYMMETRY. Whatever the colour function `F` of the sector position is, all directions equivalent under the
(Laue) group whose orbit meets the open sector get the same colour. -/
theorem colour_invariant {β : Type} (F : R3 → β) {r : SectorRec} (hr : r ∈ SEC.good) {f : R3 → R3}
    (hf : ∀ x, closedS r.walls (f x)) (horb : ∀ x, ∃ g ∈ r.ops, f x = g.actR x)
    {y : R3} (hy : openS r.walls y) {g h : M3} (hg : g ∈ r.ops) (hh : h ∈ r.ops) :
    F (keepInside r.walls f (g.actR y)) = F (keepInside r.walls f (h.actR y)) := by
  rw [C07.equivalents_project_to_same hr hf horb hy hg, C07.equivalents_project_to_same hr hf horb hy hh]

/-- The Laue group of every point-group object contains the inversion, so `v` and `-v` get the same colour. -/
theorem laue_contains_inversion {r : GroupRec} (hr : r ∈ PG.all) (b : Basis) {L : List M3}
    (hL : r.ops b = some L) : ∃ LL, r.laueOps b = some LL ∧ negI ∈ LL := by
  obtain ⟨LL, h1, _, h3⟩ := (C03.group_facts hr b hL).laue
  exact ⟨LL, h1, (h3 negI).mpr (Or.inr ⟨M3.one, (C03.group_facts hr b hL).group.one_mem, rfl⟩)⟩

/-- `hsl_to_hsv` on the arguments the colour key passes (saturation 1, lightness `½ + polar/2 ∈ [½, 1]`):
value is 1 and the saturation is `2 − 2·lightness ∈ [0, 1]` — no division by zero, nothing non-finite. -/
theorem hslToHsv_key (h l : ℝ) (h1 : 1 / 2 ≤ l) (_h2 : l ≤ 1) :
    hslToHsv h 1 l = [h, 2 - 2 * l, 1] := by
  have hb : ∀ x : ℝ, Scalar.beq x x = true := fun x => (beq_real x x).mpr rfl
  simp only [hslToHsv, lit_real, Nat.cast_ofNat, Nat.cast_one, hb, Bool.not_true, Bool.false_eq_true, if_false]
  by_cases hl : 2 * l ≤ 1
  · have hl2 : l = 1 / 2 := by linarith
    subst hl2
    have hle : Scalar.le (2 * (1 / 2) : ℝ) 1 = true := by rw [le_real]; norm_num
    simp only [hle, if_true]
    norm_num
  · have hl' : Scalar.le (2 * l) (1 : ℝ) = false := by
      cases hc : Scalar.le (2 * l) (1 : ℝ) with
      | false => rfl
      | true => exact absurd ((le_real _ _).mp hc) hl
    simp only [hl', Bool.false_eq_true, if_false]
    have e : (2 * l + 1 * (2 - 2 * l)) = 2 := by ring
    have e2 : 2 * (1 * (2 - 2 * l)) / 2 = 2 - 2 * l := by ring
    have e3 : (2 : ℝ) / 2 = 1 := by norm_num
    rw [e, e2, e3]

/-- HSV → RGB maps `[0,1]³` into `[0,1]³`. -/
theorem hsvToRgb_range (h s v : ℝ) (hh : 0 ≤ h ∧ h ≤ 1) (hs : 0 ≤ s ∧ s ≤ 1) (hv : 0 ≤ v ∧ v ≤ 1) :
    ∀ c ∈ hsvToRgb h s v, 0 ≤ c ∧ c ≤ 1 := by
  have key : ∀ f : ℝ, 0 ≤ f → f ≤ 1 → (0 ≤ v * (1 - s * f) ∧ v * (1 - s * f) ≤ 1) := by
    intro f f0 f1
    have : 0 ≤ s * f := mul_nonneg hs.1 f0
    have : s * f ≤ 1 := by nlinarith
    constructor <;> nlinarith
  have keyt : ∀ f : ℝ, 0 ≤ f → f ≤ 1 → (0 ≤ v * (1 - s * (1 - f)) ∧ v * (1 - s * (1 - f)) ≤ 1) := by
    intro f f0 f1; exact key (1 - f) (by linarith) (by linarith)
  have hp : 0 ≤ v * (1 - s) ∧ v * (1 - s) ≤ 1 := by
    have := key 1 (by norm_num) (by norm_num); simpa using this
  intro c hc
  simp only [hsvToRgb, lit_real, Nat.cast_ofNat, Nat.cast_one, Nat.cast_zero] at hc
  split_ifs at hc with c1 c2 c3 c4 c5 c6 <;>
    simp only [lt_real, not_lt] at * <;>
    simp only [List.mem_cons, List.mem_nil_iff, or_false] at hc <;>
    rcases hc with rfl | rfl | rfl <;>
    first
      | exact hv
      | exact hp
      | (apply key <;> linarith)
      | (apply keyt <;> linarith)

/-- RANGE. For every hue in `[0,1]` and every polar coordinate in `[0,1]` the key's colour is a finite RGB
triplet in `[0,1]³`. -/
theorem colour_range (hue polar : ℝ) (hh : 0 ≤ hue ∧ hue ≤ 1) (hp : 0 ≤ polar ∧ polar ≤ 1) :
    (rgbOfHuePolar hue polar).length = 3 ∧ ∀ c ∈ rgbOfHuePolar hue polar, 0 ≤ c ∧ c ≤ 1 := by
  have hl : (Scalar.dec 5 1 + polar / Scalar.lit 2 : ℝ) = 1 / 2 + polar / 2 := by
    rw [dec_real]; norm_num
  have e := hslToHsv_key hue (1 / 2 + polar / 2) (by linarith [hp.1]) (by linarith [hp.2])
  have e1 : (Scalar.lit 1 : ℝ) = 1 := by simp
  unfold rgbOfHuePolar
  rw [hl, e1, e]
  constructor
  · simp only [hsvToRgb]; split_ifs <;> rfl
  · exact hsvToRgb_range hue _ 1 hh ⟨by linarith [hp.2], by linarith [hp.1]⟩ ⟨by norm_num, by norm_num⟩

/-! non-vacuity -/
example : hslToHsv (0 : ℝ) 1 (3 / 4) = [0, 1 / 2, 1] := by
  rw [hslToHsv_key 0 (3 / 4) (by norm_num) (by norm_num)]; norm_num

end Orix.C08
