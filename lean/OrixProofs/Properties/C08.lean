import Mathlib.Tactic.Ring
import Mathlib.Tactic.Linarith
import Mathlib.Tactic.FieldSimp
import Mathlib.Tactic.NormNum
import OrixProofs.Lemmas.RealScalar
import OrixProofs.Properties.C07
import OrixProofs.Properties.C03
import OrixModel.Color
import OrixProofs.Lemmas.ColorKeyTable
import OrixProofs.Lemmas.ColorKeyPolar
/-
C08 — inverse pole figure colours respect crystal symmetry.

The colour of a direction is `F (project v)`: a function of the direction's position in the fundamental
sector of the Laue group.  The symmetry clause is therefore inherited from C07 (all equivalents project to
the same direction off the boundary).  `F` itself is `_util.py`, modelled completely in `OrixModel/ColorKey.lean`:
  * colour arithmetic: range, white at polar coordinate 1 (the centre), channel-wise monotone lightness,
    red/green/blue at polar coordinate 0 and hue 0, 1/3, 2/3;
  * azimuth correction: the table is a cumulative distribution (0 … 2π, sorted), `np.interp` of it is monotone with
    values in [0, 2π], and in a 3-vertex sector the table is exactly 2π/3, 4π/3 at the segment boundaries;
  * polar coordinate: in [0, 1] for directions on the centre's side of every wall, 1 at the centre, 0 on a wall
    (rounding of the cosines to 10 decimals included); the branch without walls has the opposite orientation.
Orientation: the code's polar coordinate is 1 at the centre and 0 on the boundary; `direction2color` uses the HSL
lightness `0.5 + polar/2`.
What stays measured (correspondence `key_table`): the vertex azimuths coincide with table angles only up to the
table's discretisation, so the corner hues are `k/3 ± 1.5e-3` — see `corner_colour_partial`.
-/
namespace Orix.C08
open Orix Orix.Grp Orix.Gen Orix.Color Orix.ColorKey

/-- SYMMETRY. Whatever the colour function `F` of the sector position is, all directions equivalent under the
(Laue) group whose orbit meets the open sector get the same colour. -/
theorem colour_invariant {β : Type} (F : R3 → β) {r : SectorRec} (hr : r ∈ SEC.good) {f : R3 → R3}
    (hf : ∀ x, closedS r.walls (f x)) (horb : ∀ x, ∃ g ∈ r.ops, f x = g.actR x)
    {y : R3} (hy : openS r.walls y) {g h : M3} (hg : g ∈ r.ops) (hh : h ∈ r.ops) :
    F (keepInside r.walls f (g.actR y)) = F (keepInside r.walls f (h.actR y)) := by
  rw [C07.equivalents_project_to_same hr hf horb hy hg, C07.equivalents_project_to_same hr hf horb hy hh]

/-- The Laue group of every point-group object contains the inversion, so `v` and `-v` get the same colour. -/
theorem laue_contains_inversion {r : GroupRec} (hr : r ∈ PG.all) (b : Basis) {L : List M3}
    (hL : r.ops b = some L) : ∃ LL, r.laueOps b = some LL ∧ negI ∈ LL := by
  obtain ⟨LL, h1, _, h3⟩ := (C03.group_facts hr b hL).laue
  exact ⟨LL, h1, (h3 negI).mpr (Or.inr ⟨M3.one, (C03.group_facts hr b hL).group.one_mem, rfl⟩)⟩

/-- `hsl_to_hsv` on the arguments the colour key passes (saturation 1, lightness `½ + polar/2 ∈ [½, 1]`):
value is 1 and the saturation is `2 − 2·lightness ∈ [0, 1]` — no division by zero, nothing non-finite. -/
theorem hslToHsv_key (h l : ℝ) (h1 : 1 / 2 ≤ l) (_h2 : l ≤ 1) :
    hslToHsv h 1 l = [h, 2 - 2 * l, 1] := by
  have hb : ∀ x : ℝ, Scalar.beq x x = true := fun x => (beq_real x x).mpr rfl
  simp only [hslToHsv, lit_real, Nat.cast_ofNat, Nat.cast_one, hb, Bool.not_true, Bool.false_eq_true, if_false]
  by_cases hl : 2 * l ≤ 1
  · have hl2 : l = 1 / 2 := by linarith
    subst hl2
    have hle : Scalar.le (2 * (1 / 2) : ℝ) 1 = true := by rw [le_real]; norm_num
    simp only [hle, if_true]
    norm_num
  · have hl' : Scalar.le (2 * l) (1 : ℝ) = false := by
      cases hc : Scalar.le (2 * l) (1 : ℝ) with
      | false => rfl
      | true => exact absurd ((le_real _ _).mp hc) hl
    simp only [hl', Bool.false_eq_true, if_false]
    have e : (2 * l + 1 * (2 - 2 * l)) = 2 := by ring
    have e2 : 2 * (1 * (2 - 2 * l)) / 2 = 2 - 2 * l := by ring
    have e3 : (2 : ℝ) / 2 = 1 := by norm_num
    rw [e, e2, e3]

/-- HSV → RGB maps `[0,1]³` into `[0,1]³`. -/
theorem hsvToRgb_range (h s v : ℝ) (hh : 0 ≤ h ∧ h ≤ 1) (hs : 0 ≤ s ∧ s ≤ 1) (hv : 0 ≤ v ∧ v ≤ 1) :
    ∀ c ∈ hsvToRgb h s v, 0 ≤ c ∧ c ≤ 1 := by
  have key : ∀ f : ℝ, 0 ≤ f → f ≤ 1 → (0 ≤ v * (1 - s * f) ∧ v * (1 - s * f) ≤ 1) := by
    intro f f0 f1
    have : 0 ≤ s * f := mul_nonneg hs.1 f0
    have : s * f ≤ 1 := by nlinarith
    constructor <;> nlinarith
  have keyt : ∀ f : ℝ, 0 ≤ f → f ≤ 1 → (0 ≤ v * (1 - s * (1 - f)) ∧ v * (1 - s * (1 - f)) ≤ 1) := by
    intro f f0 f1; exact key (1 - f) (by linarith) (by linarith)
  have hp : 0 ≤ v * (1 - s) ∧ v * (1 - s) ≤ 1 := by
    have := key 1 (by norm_num) (by norm_num); simpa using this
  intro c hc
  simp only [hsvToRgb, lit_real, Nat.cast_ofNat, Nat.cast_one, Nat.cast_zero] at hc
  split_ifs at hc with c1 c2 c3 c4 c5 c6 <;>
    simp only [lt_real, not_lt] at * <;>
    simp only [List.mem_cons, List.mem_nil_iff, or_false] at hc <;>
    rcases hc with rfl | rfl | rfl <;>
    first
      | exact hv
      | exact hp
      | (apply key <;> linarith)
      | (apply keyt <;> linarith)

/-- RANGE. For every hue in `[0,1]` and every polar coordinate in `[0,1]` the key's colour is a finite RGB
triplet in `[0,1]³`. -/
theorem colour_range (hue polar : ℝ) (hh : 0 ≤ hue ∧ hue ≤ 1) (hp : 0 ≤ polar ∧ polar ≤ 1) :
    (rgbOfHuePolar hue polar).length = 3 ∧ ∀ c ∈ rgbOfHuePolar hue polar, 0 ≤ c ∧ c ≤ 1 := by
  have hl : (Scalar.dec 5 1 + polar / Scalar.lit 2 : ℝ) = 1 / 2 + polar / 2 := by
    rw [dec_real]; norm_num
  have e := hslToHsv_key hue (1 / 2 + polar / 2) (by linarith [hp.1]) (by linarith [hp.2])
  have e1 : (Scalar.lit 1 : ℝ) = 1 := by simp
  unfold rgbOfHuePolar
  rw [hl, e1, e]
  constructor
  · simp only [hsvToRgb]; split_ifs <;> rfl
  · exact hsvToRgb_range hue _ 1 hh ⟨by linarith [hp.2], by linarith [hp.1]⟩ ⟨by norm_num, by norm_num⟩


/-! ## the colour key's arithmetic at the distinguished points -/

/-- on the key's arguments (`0 ≤ polar ≤ 1`) the colour is HSV → RGB at saturation `1 − polar`, value 1 -/
theorem rgbOfHuePolar_eq (hue polar : ℝ) (hp : 0 ≤ polar ∧ polar ≤ 1) :
    rgbOfHuePolar hue polar = hsvToRgb hue (1 - polar) 1 := by
  have hl : (Scalar.dec 5 1 + polar / Scalar.lit 2 : ℝ) = 1 / 2 + polar / 2 := by
    rw [dec_real]; norm_num
  have e := hslToHsv_key hue (1 / 2 + polar / 2) (by linarith [hp.1]) (by linarith [hp.2])
  have e1 : (Scalar.lit 1 : ℝ) = 1 := by simp
  unfold rgbOfHuePolar
  rw [hl, e1, e]
  have e2 : (2 - 2 * (1 / 2 + polar / 2) : ℝ) = 1 - polar := by ring
  show hsvToRgb hue (2 - 2 * (1 / 2 + polar / 2)) 1 = _
  rw [e2]

/-- `rgb_from_polar_coordinates(azimuth, 0.5 + polar/2)` is the colour of the hue `mod(azimuth / 2π, 1)` -/
theorem rgbFromPolarCoordinates_eq (azimuth polar : ℝ) :
    rgbFromPolarCoordinates azimuth (Scalar.dec 5 1 + polar / Scalar.lit 2) =
      rgbOfHuePolar (Scalar.fmod (azimuth / twoPi) (Scalar.lit 1)) polar := rfl

/-- HUE. `mod(azimuth / 2π, 1) ∈ [0, 1)` for every azimuth. -/
theorem hue_range (azimuth : ℝ) :
    0 ≤ Scalar.fmod (azimuth / twoPi) (Scalar.lit 1 : ℝ) ∧ Scalar.fmod (azimuth / twoPi) (Scalar.lit 1 : ℝ) < 1 := by
  have := fmod_range (azimuth / twoPi) 1 one_pos
  simpa using this

/-- RANGE for every azimuth: `rgb_from_polar_coordinates` returns an RGB triplet in `[0,1]³` whenever the polar
coordinate is in `[0, 1]`. -/
theorem key_colour_range (azimuth polar : ℝ) (hp : 0 ≤ polar ∧ polar ≤ 1) :
    (rgbFromPolarCoordinates azimuth (Scalar.dec 5 1 + polar / Scalar.lit 2)).length = 3 ∧
      ∀ c ∈ rgbFromPolarCoordinates azimuth (Scalar.dec 5 1 + polar / Scalar.lit 2), 0 ≤ c ∧ c ≤ 1 := by
  rw [rgbFromPolarCoordinates_eq]
  exact colour_range _ _ ⟨(hue_range azimuth).1, (hue_range azimuth).2.le⟩ hp

/-- CENTRE IS WHITE. Polar coordinate 1 (the value the code assigns to the sector centre) gives `(1, 1, 1)` for
every hue. -/
theorem centre_is_white (hue : ℝ) : rgbOfHuePolar hue 1 = [1, 1, 1] := by
  rw [rgbOfHuePolar_eq hue 1 ⟨by norm_num, le_refl _⟩]
  simp only [hsvToRgb, lit_real, sub_self, zero_mul, sub_zero, mul_one, Nat.cast_one]
  split_ifs <;> rfl

/-- LIGHTNESS IS MONOTONE in the polar coordinate, channel by channel: the closer to the centre (polar → 1) the
lighter. -/
theorem colour_monotone_in_polar (hue p q : ℝ) (hh : 0 ≤ hue ∧ hue ≤ 1) (hp : 0 ≤ p) (hpq : p ≤ q) (hq : q ≤ 1) :
    List.Forall₂ (· ≤ ·) (rgbOfHuePolar hue p) (rgbOfHuePolar hue q) := by
  rw [rgbOfHuePolar_eq hue p ⟨hp, by linarith⟩, rgbOfHuePolar_eq hue q ⟨by linarith, hq⟩]
  simp only [hsvToRgb, lit_real, Nat.cast_ofNat, Nat.cast_one, Nat.cast_zero]
  split_ifs with c1 c2 c3 c4 c5 c6 <;>
    simp only [lt_real, not_lt] at * <;>
    simp only [List.forall₂_cons, List.Forall₂.nil, and_true] <;>
    refine ⟨?_, ?_, ?_⟩ <;> nlinarith

/-- THE CENTRE IS THE LIGHTEST POINT. Every colour the key produces is, channel by channel, at most the colour of
the centre (white). -/
theorem centre_is_lightest (hue polar : ℝ) (hh : 0 ≤ hue ∧ hue ≤ 1) (hp : 0 ≤ polar ∧ polar ≤ 1) (hue' : ℝ) :
    List.Forall₂ (· ≤ ·) (rgbOfHuePolar hue polar) (rgbOfHuePolar hue' 1) := by
  rw [centre_is_white]
  obtain ⟨hl, hr⟩ := colour_range hue polar hh hp
  match hc : rgbOfHuePolar hue polar, hl with
  | [a, b, c], _ =>
    rw [hc] at hr
    simp only [List.forall₂_cons, List.Forall₂.nil, and_true]
    exact ⟨(hr a (by simp)).2, (hr b (by simp)).2, (hr c (by simp)).2⟩

/-- CORNER COLOURS. Polar coordinate 0 (a direction on a sector wall) with hue 0, 1/3, 2/3 gives exactly red,
green and blue. -/
theorem corner_colours :
    rgbOfHuePolar (0 : ℝ) 0 = [1, 0, 0] ∧ rgbOfHuePolar (1 / 3 : ℝ) 0 = [0, 1, 0] ∧
      rgbOfHuePolar (2 / 3 : ℝ) 0 = [0, 0, 1] := by
  refine ⟨?_, ?_, ?_⟩ <;>
    rw [rgbOfHuePolar_eq _ 0 ⟨le_refl _, by norm_num⟩] <;>
    simp only [hsvToRgb, lit_real, Nat.cast_ofNat, Nat.cast_one, Nat.cast_zero] <;>
    norm_num [lt_real]

/-- the same in terms of the corrected azimuth: `0`, `2π/3`, `4π/3` (and `2π`) are red, green, blue (red) -/
theorem corner_colours_azimuth :
    rgbFromPolarCoordinates (0 : ℝ) (Scalar.dec 5 1 + 0 / Scalar.lit 2) = [1, 0, 0] ∧
    rgbFromPolarCoordinates (2 * Real.pi / 3) (Scalar.dec 5 1 + 0 / Scalar.lit 2) = [0, 1, 0] ∧
    rgbFromPolarCoordinates (4 * Real.pi / 3) (Scalar.dec 5 1 + 0 / Scalar.lit 2) = [0, 0, 1] ∧
    rgbFromPolarCoordinates (2 * Real.pi) (Scalar.dec 5 1 + 0 / Scalar.lit 2) = [1, 0, 0] := by
  have hpi := Real.pi_pos
  have h0 : Scalar.fmod ((0 : ℝ) / twoPi) (Scalar.lit 1 : ℝ) = 0 := by simp [fmod_real]
  have h1 : Scalar.fmod ((2 * Real.pi / 3) / twoPi) (Scalar.lit 1 : ℝ) = 1 / 3 := by
    have : (2 * Real.pi / 3) / twoPi = 1 / 3 := by rw [twoPi_real]; field_simp
    rw [this, fmod_real, lit_real]; norm_num
  have h2 : Scalar.fmod ((4 * Real.pi / 3) / twoPi) (Scalar.lit 1 : ℝ) = 2 / 3 := by
    have : (4 * Real.pi / 3) / twoPi = 2 / 3 := by rw [twoPi_real]; field_simp; ring
    rw [this, fmod_real, lit_real]; norm_num
  have h3 : Scalar.fmod ((2 * Real.pi) / twoPi) (Scalar.lit 1 : ℝ) = 0 := by
    have : (2 * Real.pi) / twoPi = 1 := by rw [twoPi_real]; field_simp
    rw [this, fmod_real, lit_real]; norm_num
  simp only [rgbFromPolarCoordinates_eq, h0, h1, h2, h3]
  exact ⟨corner_colours.1, corner_colours.2.1, corner_colours.2.2, corner_colours.1⟩


/-! ## the azimuth correction table (`_correct_azimuth`) -/

/-- CUMULATIVE DISTRIBUTION. For any non-empty list of positive distances the table
`2π · cumsum(append(0, d / sum d))` starts at 0, ends at 2π, is sorted, and stays inside `[0, 2π]`. -/
theorem table_is_cumulative_distribution (d : List ℝ) (hpos : ∀ x ∈ d, 0 < x) (hne : d ≠ []) :
    (cumulativeTable d).length = d.length + 1 ∧ (cumulativeTable d)[0]? = some 0 ∧
      (cumulativeTable d)[d.length]? = some (2 * Real.pi) ∧ List.Pairwise (· ≤ ·) (cumulativeTable d) ∧
      ∀ t ∈ cumulativeTable d, 0 ≤ t ∧ t ≤ 2 * Real.pi := by
  have hnn : ∀ x ∈ d, 0 ≤ x := fun x hx => (hpos x hx).le
  exact ⟨cumulativeTable_length d, cumulativeTable_head d,
    cumulativeTable_last d (List.sum_pos d hpos hne).ne', cumulativeTable_sorted d hnn,
    cumulativeTable_mem_range d hnn⟩

/-- the table value at index `i` is `2π` times the fraction of the total distance accumulated before `i` -/
theorem table_value (d : List ℝ) (i : Nat) (hi : i ≤ d.length) :
    (cumulativeTable d)[i]? = some (2 * Real.pi * ((d.take i).sum / d.sum)) := cumulativeTable_getElem? d i hi

/-- `np.interp` of a table with increasing abscissae and non-decreasing ordinates is a non-decreasing function … -/
theorem interp_monotone {pts : List (ℝ × ℝ)} (h : MonoPts pts) {x x' a b : ℝ} (hxx : x ≤ x')
    (ha : interp x pts = some a) (hb : interp x' pts = some b) : a ≤ b := interp_mono h hxx ha hb

/-- … with values between the first and the last ordinate (for every `x`, also outside the table) -/
theorem interp_between {x0 y0 : ℝ} {r : List (ℝ × ℝ)} (h : MonoPts ((x0, y0) :: r)) {x a : ℝ}
    (ha : interp x ((x0, y0) :: r) = some a) : y0 ≤ a ∧ a ≤ lastY y0 r := interp_range h ha

/-- CORRECTED AZIMUTH. For every list of 999 non-negative distances and every azimuth the interpolation succeeds,
the result lies in `[0, 2π]` and depends monotonically on the azimuth. -/
theorem corrected_azimuth_range (d : List ℝ) (hlen : d.length + 1 = tableSize) (h : ∀ x ∈ d, 0 ≤ x) (az : ℝ) :
    ∃ a, correctAzimuth (cumulativeTable d) az = some a ∧ 0 ≤ a ∧ a ≤ 2 * Real.pi := correctAzimuth_range d hlen h az

theorem corrected_azimuth_monotone (d : List ℝ) (h : ∀ x ∈ d, 0 ≤ x) {az az' a a' : ℝ} (hle : az ≤ az')
    (ha : correctAzimuth (cumulativeTable d) az = some a) (ha' : correctAzimuth (cumulativeTable d) az' = some a') :
    a ≤ a' := correctAzimuth_mono d h hle ha ha'

/-- THIRDS. For a 3-vertex sector with segment boundaries `0 < a < b < size`, whatever the positive distances are:
the renormalisation succeeds, keeps the distances positive, and the table is exactly `2π/3` at index `a` and `4π/3` at
index `b` — each of the three segments carries one third of the full turn.  This is why the three corners get the
hues 0, 1/3, 2/3. -/
theorem three_segments_carry_thirds (d : List ℝ) (a b : Nat) (h0 : 0 < a) (hab : a < b) (hb : b < d.length)
    (hpos : ∀ x ∈ d, 0 < x) :
    ∃ d', renorm3 a b d = some d' ∧ d'.length = d.length ∧ (∀ x ∈ d', 0 < x) ∧
      (cumulativeTable d')[a]? = some (2 * Real.pi / 3) ∧ (cumulativeTable d')[b]? = some (4 * Real.pi / 3) :=
  renorm3_thirds d a b h0 hab hb hpos

/-! ## the whole of `polar_coordinates_in_sector` / `direction2color` (model functions, all inputs) -/

/-- what a successful call returns: the polar coordinate of the normalised direction, and the azimuth either as
computed (no vertices) or looked up in the sector's table -/
theorem polarCoordinatesInSector_eq (S : SectorIn ℝ) (v : Vec3 ℝ) (az pol : ℝ)
    (h : polarCoordinatesInSector S v = some (az, pol)) :
    pol = polarCoordinate S.normals (Vec3.unit S.center) (Vec3.unit v) ∧
      ((S.vertices.length == 0) = true ∧ az = rawAzimuth S v ∨
       (S.vertices.length == 0) = false ∧ ∃ t, azimuthTable S = some t ∧ correctAzimuth t (rawAzimuth S v) = some az) := by
  unfold polarCoordinatesInSector at h
  cases hv : (S.vertices.length == 0) with
  | true =>
    simp only [hv, if_true, polarCoordinatesWith, Option.some.injEq, Prod.mk.injEq] at h
    exact ⟨h.2.symm, Or.inl ⟨rfl, h.1.symm⟩⟩
  | false =>
    simp only [hv, Bool.false_eq_true, if_false] at h
    cases ht : azimuthTable S with
    | none => simp [ht] at h
    | some t =>
      simp only [ht, polarCoordinatesWith, hv, Bool.false_eq_true, if_false] at h
      cases hc : correctAzimuth t (calculateAzimuth (Vec3.unit S.center) (rxOf S) (Vec3.unit v)) with
      | none => simp [hc] at h
      | some a =>
        simp only [hc, Option.some.injEq, Prod.mk.injEq] at h
        exact ⟨h.2.symm, Or.inr ⟨rfl, t, rfl, by rw [← h.1]; exact hc⟩⟩

/-- AZIMUTH RANGE of the model, unconditionally: whenever `polar_coordinates_in_sector` returns, the azimuth is in
`[0, 2π]` (so the hue `mod(azimuth/2π, 1)` only wraps at the end point). -/
theorem model_azimuth_range (S : SectorIn ℝ) (v : Vec3 ℝ) (az pol : ℝ)
    (h : polarCoordinatesInSector S v = some (az, pol)) : 0 ≤ az ∧ az ≤ 2 * Real.pi := by
  obtain ⟨_, h1 | h1⟩ := polarCoordinatesInSector_eq S v az pol h
  · rw [h1.2]
    have := calculateAzimuth_range (Vec3.unit S.center) (rxOf S) (Vec3.unit v)
    exact ⟨this.1, this.2.le⟩
  · obtain ⟨_, t, ht, hc⟩ := h1
    obtain ⟨d, rfl, hl, hn⟩ := azimuthTable_spec S t ht
    obtain ⟨a, ha, hr⟩ := correctAzimuth_range d hl hn (rawAzimuth S v)
    rw [ha] at hc
    cases Option.some.inj hc
    exact hr

/-- POLAR RANGE of the model: for a non-zero centre and direction with `n·ĉ + n·v̂ ≥ 0` for every wall normal (true
when both lie in the closed sector) the polar coordinate is in `[0, 1]` — in both branches of the code. -/
theorem model_polar_range (S : SectorIn ℝ) (v : Vec3 ℝ) (az pol : ℝ)
    (h : polarCoordinatesInSector S v = some (az, pol)) (hc : 0 < Vec3.normSq S.center) (hv : 0 < Vec3.normSq v)
    (hn : ∀ n ∈ S.normals, 0 ≤ Vec3.dot n (Vec3.unit S.center) + Vec3.dot n (Vec3.unit v)) :
    0 ≤ pol ∧ pol ≤ 1 := by
  rw [(polarCoordinatesInSector_eq S v az pol h).1]
  exact polarCoordinate_range_aux S.normals (LatLemmas.normSq_unit hc) (LatLemmas.normSq_unit hv) hn

/-- COLOUR RANGE of the model: under the same hypotheses `direction2color` returns an RGB triplet in `[0, 1]³`. -/
theorem model_colour_range (S : SectorIn ℝ) (v : Vec3 ℝ) (rgb : List ℝ) (h : directionColor S v = some rgb)
    (hc : 0 < Vec3.normSq S.center) (hv : 0 < Vec3.normSq v)
    (hn : ∀ n ∈ S.normals, 0 ≤ Vec3.dot n (Vec3.unit S.center) + Vec3.dot n (Vec3.unit v)) :
    rgb.length = 3 ∧ ∀ c ∈ rgb, 0 ≤ c ∧ c ≤ 1 := by
  unfold directionColor at h
  cases hp : polarCoordinatesInSector S v with
  | none => simp [hp] at h
  | some r =>
    obtain ⟨az, pol⟩ := r
    simp only [hp, Option.some.injEq] at h
    rw [← h]
    exact key_colour_range az pol (model_polar_range S v az pol hp hc hv hn)

/-- THE CENTRE, branch with walls (every Laue sector): the polar coordinate of the sector centre is 1 … -/
theorem model_centre_polar (S : SectorIn ℝ) (az pol : ℝ)
    (hwall : S.normals.all (fun m => Scalar.beq (Vec3.dot m (Vec3.unit S.center)) (Scalar.lit 0 : ℝ)) = false)
    (h : polarCoordinatesInSector S S.center = some (az, pol)) : pol = 1 := by
  rw [(polarCoordinatesInSector_eq S S.center az pol h).1]
  exact polarCoordinate_centre_aux S.normals _ hwall

/-- … its azimuth before the correction is 0 (`arctan2(0, 0)`; the code's NaN → 0 rule is never needed over ℝ) … -/
theorem model_centre_azimuth (S : SectorIn ℝ) : rawAzimuth S S.center = 0 :=
  calculateAzimuth_centre _ _

/-- … and its colour is white. -/
theorem model_centre_white (S : SectorIn ℝ) (rgb : List ℝ)
    (hwall : S.normals.all (fun m => Scalar.beq (Vec3.dot m (Vec3.unit S.center)) (Scalar.lit 0 : ℝ)) = false)
    (h : directionColor S S.center = some rgb) : rgb = [1, 1, 1] := by
  unfold directionColor at h
  cases hp : polarCoordinatesInSector S S.center with
  | none => simp [hp] at h
  | some r =>
    obtain ⟨az, pol⟩ := r
    simp only [hp, Option.some.injEq] at h
    rw [← h, model_centre_polar S az pol hwall hp, rgbFromPolarCoordinates_eq, centre_is_white]

/-- the branch without walls (`count_nonzero(sector.dot(center)) == 0`, reached by no Laue sector) uses the opposite
orientation: `angle/π ∈ [0, 1]`, 0 at the centre -/
theorem no_wall_branch (normals : List (Vec3 ℝ)) (c v : Vec3 ℝ)
    (hflat : normals.all (fun m => Scalar.beq (Vec3.dot m c) (Scalar.lit 0 : ℝ)) = true) :
    polarCoordinate normals c v = angleWith c v / Real.pi ∧ 0 ≤ polarCoordinate normals c v ∧
      polarCoordinate normals c v ≤ 1 ∧ (Vec3.normSq c = 1 → polarCoordinate normals c c = 0) := by
  refine ⟨polarCoordinate_flat normals c v hflat, ?_, ?_, fun hc => polarCoordinate_flat_centre normals hc hflat⟩
  · rw [polarCoordinate_flat normals c v hflat]; exact (angleWith_div_pi_range c v).1
  · rw [polarCoordinate_flat normals c v hflat]; exact (angleWith_div_pi_range c v).2

/-- ON A WALL: a direction on a wall `n₀` (`n₀·v = 0`) whose positive side contains the centre has polar
coordinate 0 — full saturation; this holds in particular at every sector vertex. -/
theorem model_wall_polar (S : SectorIn ℝ) (v n0 : Vec3 ℝ) (az pol : ℝ)
    (h : polarCoordinatesInSector S v = some (az, pol)) (hc : 0 < Vec3.normSq S.center) (hv : 0 < Vec3.normSq v)
    (hmem : n0 ∈ S.normals) (hnv : Vec3.dot n0 v = 0) (hnc : 0 < Vec3.dot n0 S.center) : pol = 0 := by
  rw [(polarCoordinatesInSector_eq S v az pol h).1]
  apply polarCoordinate_wall_aux S.normals (LatLemmas.normSq_unit hv) hmem
  · rw [dot_unit n0 v hv, hnv, zero_div]
  · rw [dot_unit n0 S.center hc]; exact div_pos hnc (LatLemmas.norm_pos hc)

/-- CORNERS (partial).  Full clause: "for the cubic key the three sector corners are red, green and blue".
Proved here for every sector: a direction on a wall (every vertex is) has polar coordinate 0, and if its corrected
azimuth is `0`, `2π/3`, `4π/3` its colour is exactly red, green, blue; by `three_segments_carry_thirds` the table
takes exactly these values at the rounded vertex indices.  Missing, and not true exactly: that the azimuth of the
k-th vertex *is* the table angle of its rounded index — it is only within the table's discretisation
(`|azimuth/2π − i/999| ≤ 1.5e-3`, measured by the `key_table` site), so the corner hues are `k/3 ± 1.5e-3`. -/
theorem corner_colour_partial (S : SectorIn ℝ) (v n0 : Vec3 ℝ) (rgb : List ℝ)
    (h : directionColor S v = some rgb) (hc : 0 < Vec3.normSq S.center) (hv : 0 < Vec3.normSq v)
    (hmem : n0 ∈ S.normals) (hnv : Vec3.dot n0 v = 0) (hnc : 0 < Vec3.dot n0 S.center) :
    ∃ az, polarCoordinatesInSector S v = some (az, 0) ∧
      (az = 0 → rgb = [1, 0, 0]) ∧ (az = 2 * Real.pi / 3 → rgb = [0, 1, 0]) ∧
      (az = 4 * Real.pi / 3 → rgb = [0, 0, 1]) := by
  unfold directionColor at h
  cases hp : polarCoordinatesInSector S v with
  | none => simp [hp] at h
  | some r =>
    obtain ⟨az, pol⟩ := r
    simp only [hp, Option.some.injEq] at h
    have h0 := model_wall_polar S v n0 az pol hp hc hv hmem hnv hnc
    subst h0
    refine ⟨az, rfl, ?_, ?_, ?_⟩ <;> intro e <;> rw [← h, e]
    · exact corner_colours_azimuth.1
    · exact corner_colours_azimuth.2.1
    · exact corner_colours_azimuth.2.2.1

/-- SYMMETRY of the key's colour.  The colour is a function of the projected direction only
(`directionColor S ∘ cart`, `cart` any change from lattice to Cartesian coordinates), so by C07 all Laue-equivalent
directions whose orbit meets the open sector get identical colours, for each of the 70 certified sectors. -/
theorem key_colour_invariant (S : SectorIn ℝ) (cart : R3 → Vec3 ℝ) {r : SectorRec} (hr : r ∈ SEC.good)
    {f : R3 → R3} (hf : ∀ x, closedS r.walls (f x)) (horb : ∀ x, ∃ g ∈ r.ops, f x = g.actR x)
    {y : R3} (hy : openS r.walls y) {g h : M3} (hg : g ∈ r.ops) (hh : h ∈ r.ops) :
    directionColor S (cart (keepInside r.walls f (g.actR y))) =
      directionColor S (cart (keepInside r.walls f (h.actR y))) :=
  colour_invariant (fun x => directionColor S (cart x)) hr hf horb hy hg hh

/-! non-vacuity -/
example : hslToHsv (0 : ℝ) 1 (3 / 4) = [0, 1 / 2, 1] := by
  rw [hslToHsv_key 0 (3 / 4) (by norm_num) (by norm_num)]; norm_num

/-- the hypotheses of `three_segments_carry_thirds` are satisfiable -/
example : ∃ d', renorm3 1 2 [(1 : ℝ), 2, 3, 4] = some d' ∧ (cumulativeTable d')[1]? = some (2 * Real.pi / 3) := by
  obtain ⟨d', h1, _, _, h2, _⟩ := three_segments_carry_thirds [(1 : ℝ), 2, 3, 4] 1 2 (by norm_num) (by norm_num)
    (by simp) (by intro x hx; simp at hx; rcases hx with rfl | rfl | rfl | rfl <;> norm_num)
  exact ⟨d', h1, h2⟩

/-- … and those of `corrected_azimuth_range` (999 distances) -/
example (az : ℝ) : ∃ a, correctAzimuth (cumulativeTable (List.replicate 999 (1 : ℝ))) az = some a ∧ 0 ≤ a ∧
    a ≤ 2 * Real.pi :=
  corrected_azimuth_range _ (by rw [List.length_replicate]; rfl) (by intro x hx; rw [List.eq_of_mem_replicate hx]; norm_num) az

/-- a direction on the wall `z = 0` of the half-space sector with centre `[001]` has polar coordinate 0, the centre 1 -/
example : polarCoordinate [(⟨0, 0, 1⟩ : Vec3 ℝ)] ⟨0, 0, 1⟩ ⟨1, 0, 0⟩ = 0 :=
  polarCoordinate_wall_aux _ (by norm_num [Vec3.normSq, Vec3.dot]) (List.mem_singleton.mpr rfl)
    (by norm_num [Vec3.dot]) (by norm_num [Vec3.dot])

example : polarCoordinate [(⟨0, 0, 1⟩ : Vec3 ℝ)] ⟨0, 0, 1⟩ ⟨0, 0, 1⟩ = 1 :=
  polarCoordinate_centre_aux _ _ (by
    rw [Bool.eq_false_iff]; intro h
    have := (List.all_eq_true.mp h) ⟨0, 0, 1⟩ (List.mem_singleton.mpr rfl)
    rw [beq_real] at this; norm_num [Vec3.dot] at this)

end Orix.C08
