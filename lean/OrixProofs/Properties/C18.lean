import Mathlib.Tactic.Ring
import Mathlib.Data.Real.Basic
import OrixModel.Chunk
import OrixProofs.Properties.C02
import OrixProofs.Properties.C16
/-
C18 — results do not depend on evaluation strategy.

As algebra: (i) chunked evaluation — for EVERY chunk size — of element-wise maps, of element-wise binary operations on equally
chunked operands, of outer products and of associative reductions (the max over symmetry-equivalent pairs that the lazy distance
matrices take block by block; tied to the code by the `symmetry_lazy` site, lazy = eager for every chunk size) equals whole
evaluation (values and layout), and every chunk is non-empty and at most the chunk size; (ii) the dask einsum coefficient tables and the built-in numba kernels are the same
polynomials as the model's Hamilton product / rotation (AST-translated obligations `outer_dask_qq/qv`,
`qu_multiply_gufunc`, `qu_rotate_vec_gufunc`, `qu_conj_gufunc` = model, re-proved on every run; listed in the evidence);
(iii) integers and float32 values embed into the reals by ring homomorphisms, so the dtype only changes input rounding;
(iv) processing an n-dimensional object whole or element by element is naturality of the structural maps (C16).
dask scheduling, numpy-quaternion and rounding are outside the theorems: exercised by the correspondence check, which
runs the same call under lazy × chunk size × backend × dtype × whole/element-wise.
-/
namespace Orix.C18
open Orix.Chunk

theorem chunksAux_flatten {α : Type} (n : Nat) : ∀ (fuel : Nat) (l : List α), l.length ≤ fuel →
    (chunksAux n fuel l).flatten = l
  | 0, l, h => by
    have : l = [] := List.length_eq_zero_iff.mp (Nat.le_zero.mp h)
    simp [chunksAux, this]
  | fuel + 1, l, h => by
    unfold chunksAux
    cases l with
    | nil => simp
    | cons x xs =>
      simp only [List.isEmpty_cons, Bool.false_eq_true, if_false, List.flatten_cons]
      rw [chunksAux_flatten n fuel _ (by simp only [List.length_drop, List.length_cons] at h ⊢; omega)]
      exact List.take_append_drop (n + 1) (x :: xs)

theorem chunks_flatten {α : Type} (n : Nat) (l : List α) : (chunks n l).flatten = l :=
  chunksAux_flatten n l.length l (le_refl _)

/-- CHUNK-SIZE INDEPENDENCE (element-wise): for every chunk size the chunked result is the whole result -/
theorem mapChunked_eq {α β : Type} (n : Nat) (f : α → β) (A : List α) : mapChunked n f A = mapWhole f A := by
  unfold mapChunked mapWhole
  rw [← List.map_flatten, chunks_flatten]

theorem flatMap_flatten_chunks {α β : Type} (g : α → List β) : ∀ ls : List (List α),
    ls.flatMap (fun c => c.flatMap g) = ls.flatten.flatMap g
  | [] => rfl
  | c :: ls => by simp [List.flatMap_cons, List.flatMap_append, flatMap_flatten_chunks g ls]

theorem flatMap_chunks {α β : Type} (n : Nat) (g : α → List β) (A : List α) :
    (chunks n A).flatMap (fun c => c.flatMap g) = A.flatMap g := by
  rw [flatMap_flatten_chunks, chunks_flatten]

/-- CHUNK-SIZE INDEPENDENCE (outer products): for every pair of chunk sizes, values AND layout
(`self.shape + other.shape`, row-major) equal the eager outer product -/
theorem outerChunked_eq {α β γ : Type} (n m : Nat) (f : α → β → γ) (A : List α) (B : List β) :
    outerChunked n m f A B = outerWhole f A B := by
  unfold outerChunked outerWhole
  rw [flatMap_chunks n (fun a => (chunks m B).flatMap fun cb => cb.map (f a)) A]
  congr 1
  funext a
  have h := flatMap_chunks m (fun b => [f a b]) B
  have e1 : ∀ l : List β, l.flatMap (fun b => [f a b]) = l.map (f a) := by
    intro l; induction l with
    | nil => rfl
    | cons b l ih => simp [List.flatMap_cons, ih]
  simp only [e1] at h
  exact h

/-- the outer product is indexed as `self.shape + other.shape`: entry `(i, j)` is `f A[i] B[j]` -/
theorem outerWhole_index {α β γ : Type} (f : α → β → γ) (A : List α) (B : List β) (i j : Nat)
    (hi : i < A.length) (hj : j < B.length) :
    (outerWhole f A B)[i * B.length + j]? = some (f A[i] B[j]) := by
  induction A generalizing i with
  | nil => simp at hi
  | cons a A ih =>
    cases i with
    | zero =>
      simp only [outerWhole, List.flatMap_cons, Nat.zero_mul, Nat.zero_add, List.getElem_cons_zero]
      rw [List.getElem?_append_left (by simpa using hj)]
      simp [hj]
    | succ i =>
      have hi' : i < A.length := by simpa using hi
      simp only [outerWhole, List.flatMap_cons, List.getElem_cons_succ]
      rw [List.getElem?_append_right (by simp; nlinarith)]
      have : (i + 1) * B.length + j - (List.map (f a) B).length = i * B.length + j := by
        simp; ring_nf; omega
      rw [this]
      exact ih i hi'

/-- BACKEND INDEPENDENCE at the model level: the sandwich product of the numpy-quaternion path and the built-in
kernel are the same map on unit quaternions (C02.rotate_eq_sandwich), and both products are `Quat.mul`. -/
theorem backends_agree (q : Quat ℝ) (v : Vec3 ℝ) (h : Quat.normSq q = 1) :
    Quat.rotateSandwich q v = Quat.rotate q v := C02.rotate_eq_sandwich q v h

/-- DTYPE: integer inputs embed into the reals by a ring homomorphism — computing the Hamilton product on the integers
and casting equals casting and computing (exact for |values| < 2^53 in float64). -/
theorem int_cast_mul (a b c d e f g h : ℤ) :
    (((a * e - b * f - c * g - d * h : ℤ) : ℝ)) = (a : ℝ) * e - b * f - c * g - d * h := by push_cast; ring

/-- every chunk is non-empty and no longer than the chunk size: `chunks` really is a partition into blocks of the
requested size (so the independence theorems speak about blocked evaluation, not about one big block) -/
theorem chunksAux_sizes {α : Type} (n : Nat) : ∀ (fuel : Nat) (l : List α),
    ∀ c ∈ chunksAux n fuel l, 0 < c.length ∧ c.length ≤ n + 1
  | 0, _, c, h => by simp [chunksAux] at h
  | fuel + 1, l, c, h => by
    unfold chunksAux at h
    cases l with
    | nil => simp at h
    | cons x xs =>
      simp only [List.isEmpty_cons, Bool.false_eq_true, if_false, List.mem_cons] at h
      rcases h with h | h
      · subst h
        simp only [List.length_take, List.length_cons]
        omega
      · exact chunksAux_sizes n fuel _ c h

theorem chunks_sizes {α : Type} (n : Nat) (l : List α) : ∀ c ∈ chunks n l, 0 < c.length ∧ c.length ≤ n + 1 :=
  chunksAux_sizes n l.length l

theorem zipChunkedAux_eq {α β γ : Type} (n : Nat) (f : α → β → γ) : ∀ (fa fb : Nat) (A : List α) (B : List β),
    A.length ≤ fa → B.length ≤ fb →
    (List.zipWith (List.zipWith f) (chunksAux n fa A) (chunksAux n fb B)).flatten = List.zipWith f A B
  | 0, _, A, B, ha, _ => by
    have : A = [] := List.length_eq_zero_iff.mp (Nat.le_zero.mp ha)
    simp [chunksAux, this]
  | fa + 1, 0, A, B, _, hb => by
    have : B = [] := List.length_eq_zero_iff.mp (Nat.le_zero.mp hb)
    simp [chunksAux, this]
  | fa + 1, fb + 1, A, B, ha, hb => by
    cases A with
    | nil => simp [chunksAux]
    | cons x xs =>
      cases B with
      | nil => simp [chunksAux]
      | cons y ys =>
        rw [chunksAux, chunksAux]
        simp only [List.isEmpty_cons, Bool.false_eq_true, if_false, List.zipWith_cons_cons, List.flatten_cons]
        rw [zipChunkedAux_eq n f fa fb _ _
          (by simp only [List.length_drop, List.length_cons] at ha ⊢; omega)
          (by simp only [List.length_drop, List.length_cons] at hb ⊢; omega)]
        rw [← List.take_zipWith, ← List.drop_zipWith]
        exact List.take_append_drop (n + 1) _

/-- CHUNK-SIZE INDEPENDENCE (element-wise binary operations on equally chunked operands, any lengths) -/
theorem zipChunked_eq {α β γ : Type} (n : Nat) (f : α → β → γ) (A : List α) (B : List β) :
    zipChunked n f A B = zipWhole f A B :=
  zipChunkedAux_eq n f A.length B.length A B (le_refl _) (le_refl _)

theorem foldl_assoc_id {α : Type} (op : α → α → α) (e : α) (hassoc : ∀ a b c, op (op a b) c = op a (op b c))
    (hl : ∀ a, op e a = a) (hr : ∀ a, op a e = a) : ∀ (c : List α) (a : α), c.foldl op a = op a (c.foldl op e)
  | [], a => by simp [hr]
  | x :: c, a => by
    simp only [List.foldl_cons]
    rw [foldl_assoc_id op e hassoc hl hr c (op a x), hl x, foldl_assoc_id op e hassoc hl hr c x, hassoc]

theorem foldl_flatten_chunks {α : Type} (op : α → α → α) (e : α) (hassoc : ∀ a b c, op (op a b) c = op a (op b c))
    (hl : ∀ a, op e a = a) (hr : ∀ a, op a e = a) : ∀ (ls : List (List α)) (a : α),
    ls.flatten.foldl op a = (ls.map fun c => c.foldl op e).foldl op a
  | [], a => rfl
  | c :: ls, a => by
    simp only [List.flatten_cons, List.foldl_append, List.map_cons, List.foldl_cons]
    rw [foldl_flatten_chunks op e hassoc hl hr ls, foldl_assoc_id op e hassoc hl hr c a]

/-- CHUNK-SIZE INDEPENDENCE (reductions): for every chunk size, reducing block by block and then reducing the partial
results equals the whole reduction, for every associative operation with a two-sided identity (max over a bounded-below
range, sum, logical or, …). Rounding of a floating-point SUM is outside this theorem; max/min are exact in floats. -/
theorem reduceChunked_eq {α : Type} (n : Nat) (op : α → α → α) (e : α)
    (hassoc : ∀ a b c, op (op a b) c = op a (op b c)) (hl : ∀ a, op e a = a) (hr : ∀ a, op a e = a) (A : List α) :
    reduceChunked n op e A = reduceWhole op e A := by
  unfold reduceChunked reduceWhole
  rw [← foldl_flatten_chunks op e hassoc hl hr, chunks_flatten]

/-! non-vacuity -/
example : chunks 1 [1, 2, 3, 4, 5] = [[1, 2], [3, 4], [5]] := by decide
example : outerChunked 0 1 (fun a b => a * 10 + b) [1, 2, 3] [4, 5, 6] = [14, 15, 16, 24, 25, 26, 34, 35, 36] := by decide
example : zipChunked 1 (fun a b => a * 10 + b) [1, 2, 3, 4, 5] [6, 7, 8] = [16, 27, 38] := by decide
example : reduceChunked 1 Nat.max 0 [3, 9, 2, 7, 1] = 9 := by decide
example : ∀ a b c : Nat, Nat.max (Nat.max a b) c = Nat.max a (Nat.max b c) := fun a b c => Nat.max_assoc a b c

end Orix.C18
