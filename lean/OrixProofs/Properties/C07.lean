import OrixProofs.Lemmas.Dirichlet
import OrixProofs.GenAudit.C07Tables
/-
C07 — the fundamental sector is a fundamental domain and projection into it is exact.

`Gen.SEC` is REGENERATED on every run from the live `fundamental_sector` of each of the 38 point-group
objects and of its Laue group (wall normals as integer covectors in lattice coordinates, operations taken
from the C03 table).  For each sector the extraction proposes either Dirichlet-cell certificates or a
counter-example; `OrixProofs/GenAudit/SEC_*.lean` re-check them in the kernel and the theorems below lift the
runs to statements about ALL real directions.  Directions are lattice coordinates `x : R3`
(`v = x₁ a + x₂ b + x₃ c`); the closed sector is `∀ h ∈ walls, 0 ≤ h·x`, the open sector `0 < h·x`.
-/
namespace Orix.C07
open Orix.Grp Orix.Gen Orix.GenAudit

/-- TILING. For every certified sector: every direction has an equivalent in the closed sector, and a
direction strictly inside has no other equivalent in the closed sector. -/
theorem sector_is_fundamental_domain {r : SectorRec} (hr : r ∈ SEC.good) :
    FundamentalDomain r.ops r.walls :=
  checkSector_sound ((List.all_eq_true.mp all_sectors_good) r hr)

/-- every direction has at least one equivalent inside the sector -/
theorem at_least_one_inside {r : SectorRec} (hr : r ∈ SEC.good) (x : R3) :
    ∃ g ∈ r.ops, closedS r.walls (g.actR x) := (sector_is_fundamental_domain hr).1 x

/-- directions in general position (strictly inside) have exactly one equivalent inside: the images of the
open sector under two different operations are disjoint — no gaps (above) and no overlaps. -/
theorem exactly_one_in_general_position {r : SectorRec} (hr : r ∈ SEC.good) {y : R3} (hy : openS r.walls y)
    {k : M3} (hk : k ∈ r.ops) (hky : openS r.walls (k.actR y)) : k = M3.one :=
  (sector_is_fundamental_domain hr).2 y hy k hk (fun h hh => le_of_lt (hky h hh))

/-- The sectors listed in `SEC.bad` (known findings) are NOT fundamental domains: each has a lattice direction
in general position with two distinct equivalents strictly inside. -/
theorem listed_sector_is_not_fundamental_domain {t : List M3 × List Z3 × BadWitness} (ht : t ∈ SEC.bad) :
    ¬ FundamentalDomain t.1 t.2.1 :=
  checkBad_sound ((List.all_eq_true.mp all_sectors_bad) t ht)

/-- PROJECTION (argmax rule of `Vector3d.in_fundamental_sector`, any tie-breaking): for a sector that is a plain
Dirichlet cell of its certified centre, `k⁻¹ x` with `k` maximising `⟨x, k c⟩` lies inside the closed sector. -/
theorem projection_inside {r : SectorRec} (hr : r ∈ SEC.good) (hh : r.half = none) (x : R3) {k : M3}
    (hk : k ∈ r.ops)
    (hmax : ∀ m ∈ r.ops, pairR r.metric x (m.actR r.cert.centre.toR) ≤ pairR r.metric x (k.actR r.cert.centre.toR))
    {g : M3} (hg : g ∈ r.ops) (hkg : k.mul g = M3.one) : closedS r.walls (g.actR x) :=
  argmax_projection_in_sector ((List.all_eq_true.mp all_sectors_good) r hr) hh x hk hmax hg hkg

/-- PROJECTION for the two-stage sectors (321, -4, -3 and the Laue variants: half-space + cell of the subgroup that keeps
it): after moving the direction into the half-space with a reversing operation, the argmax rule over the subgroup lands
inside the closed sector. -/
theorem projection_inside_two_stage {r : SectorRec} (hr : r ∈ SEC.good) {p : Z3} (hh : r.half = some p) (x : R3)
    {s : M3} (hs : s ∈ r.ops) (hsx : 0 ≤ p.dotR (s.actR x)) {k : M3} (hk : k ∈ r.sub)
    (hmax : ∀ m ∈ r.sub, pairR r.metric (s.actR x) (m.actR r.cert.centre.toR)
        ≤ pairR r.metric (s.actR x) (k.actR r.cert.centre.toR))
    {g : M3} (hg : g ∈ r.sub) (hkg : k.mul g = M3.one) : closedS r.walls (g.actR (s.actR x)) :=
  two_stage_projection_in_sector ((List.all_eq_true.mp all_sectors_good) r hr) hh x hs hsx hk hmax hg hkg

/-- projecting twice changes nothing (with the code's "keep the ones already inside" rule, for any projection
that lands inside) -/
theorem projection_idempotent {walls : List Z3} {f : R3 → R3} (hf : ∀ x, closedS walls (f x)) (x : R3) :
    keepInside walls f (keepInside walls f x) = keepInside walls f x := keepInside_idempotent hf x

/-- the projection returns `s·v` for an operation `s` of the group -/
theorem projection_in_orbit {r : SectorRec} (hr : r ∈ SEC.good) {f : R3 → R3}
    (horb : ∀ x, ∃ g ∈ r.ops, f x = g.actR x) (x : R3) :
    ∃ g ∈ r.ops, keepInside r.walls f x = g.actR x := by
  have h := (List.all_eq_true.mp all_sectors_good) r hr
  unfold checkSector at h
  simp only [Bool.and_eq_true] at h
  exact keepInside_orbit (isGroup_iff.mp h.1.1.1.1.1.1.1) horb x

/-- all symmetry-equivalent directions project to the same direction unless they lie on the boundary -/
theorem equivalents_project_to_same {r : SectorRec} (hr : r ∈ SEC.good) {f : R3 → R3}
    (hf : ∀ x, closedS r.walls (f x)) (horb : ∀ x, ∃ g ∈ r.ops, f x = g.actR x)
    {y : R3} (hy : openS r.walls y) {g : M3} (hg : g ∈ r.ops) :
    keepInside r.walls f (g.actR y) = y := by
  have h := (List.all_eq_true.mp all_sectors_good) r hr
  have hL : IsGroupList r.ops := by
    unfold checkSector at h
    simp only [Bool.and_eq_true] at h
    exact isGroup_iff.mp h.1.1.1.1.1.1.1
  exact projection_constant_on_orbit hL (sector_is_fundamental_domain hr) hf horb hy hg

/-! non-vacuity -/
example : SEC.s37_self ∈ SEC.good := by simp [SEC.good]
example : SEC.s37_self.walls.length = 3 ∧ SEC.s37_self.ops.length = 48 := by decide
example : openS SEC.s37_self.walls ⟨2, 1, 3⟩ := by
  intro h hh
  simp [SEC.s37_self] at hh
  rcases hh with rfl | rfl | rfl <;> simp [Z3.dotR] <;> norm_num

end Orix.C07
