import Mathlib.Tactic.Ring
import Mathlib.Tactic.Linarith
import Mathlib.Tactic.LinearCombination
import OrixProofs.Lemmas.RealScalar
import OrixProofs.Lemmas.Unique
import OrixProofs.Lemmas.UniqueKey
/-
C17 — unique() returns a duplicate-free cover with valid index maps.

Statements are about `OrixModel/Unique.lean` (tied to orix by `harness/props/c17.py`, site `uniq_model`) and hold
for *all* lists of keys, every drop predicate and every comparison function used for numpy's sort.

  specification (`uniqueSpec`: what the property states)      unique_nodup, unique_cover, unique_sound,
      unique_order, unique_first, idx_selects, inv_reconstructs
  `Rotation.unique` (`rotUnique`)                              rotUnique_eq_spec: it *is* the specification
  `Object3d.unique` (`baseUnique`: Quaternion, Vector3d, Miller)   base_out_eq_spec (returned elements are right),
      base_idx_partial / base_inv_partial (what idx / inv do satisfy), base_idx_inv_counterexample
  antipodal keys over ℝ                                       differentiators_neg, differentiators_eq_iff

Rounding (`np.round` to 10 / 12 decimals) is part of the key function and outside these theorems; its effect is
compared exactly by the correspondence check.
Only property theorems and non-vacuity examples live in this file.
-/
namespace Orix.C17
open Orix Orix.Unique

variable {κ : Type} [DecidableEq κ]

/-! ## the specification has the five contracts -/

/-- returned elements are pairwise distinct (under the key) -/
theorem unique_nodup (drop : κ → Bool) (keys : List κ) : (uniqueSpec drop keys).out.Nodup :=
  outKeys_nodup _

/-- every non-dropped input element equals one of the returned elements -/
theorem unique_cover (drop : κ → Bool) (keys : List κ) (k : κ) (hk : k ∈ keys) (hd : drop k = false) :
    k ∈ (uniqueSpec drop keys).out := by
  simp only [uniqueSpec, mem_outKeys, keptZ_fst, List.mem_filter, hk, hd, Bool.not_false, and_self]

/-- and nothing else is returned: every returned element is a non-dropped input element -/
theorem unique_sound (drop : κ → Bool) (keys : List κ) (k : κ) (hk : k ∈ (uniqueSpec drop keys).out) :
    k ∈ keys ∧ drop k = false := by
  simp only [uniqueSpec, mem_outKeys, keptZ_fst, List.mem_filter, Bool.not_eq_eq_eq_not, Bool.not_true] at hk
  exact hk

/-- `idx` selects the returned elements from the flattened input -/
theorem idx_selects (drop : κ → Bool) (keys : List κ) (t : Nat) :
    (uniqueSpec drop keys).out[t]? = ((uniqueSpec drop keys).idx[t]?).bind (fun i => keys[i]?) := by
  simp only [uniqueSpec]
  rw [outKeys_getElem?]
  have hall : ∀ a ∈ firstIdx ((keptZ drop keys).map (·.1)), (((keptZ drop keys).map (·.2))[a]?).isSome := by
    intro a ha
    have := firstIdx_all_some _ a ha
    simp only [List.getElem?_map, Option.isSome_map] at this ⊢
    exact this
  rw [filterMap_getElem?_of_all_some _ _ hall]
  cases (firstIdx ((keptZ drop keys).map (·.1)))[t]? with
  | none => rfl
  | some a => simp only [Option.bind_some, kept_getElem?]

/-- order of first appearance is kept: `idx` is strictly increasing -/
theorem unique_order (drop : κ → Bool) (keys : List κ) : (uniqueSpec drop keys).idx.Pairwise (· < ·) := by
  simp only [uniqueSpec]
  refine List.Pairwise.filterMap _ ?_ (firstIdx_sorted _)
  intro a a' haa' b hb b' hb'
  have hp := List.pairwise_iff_getElem.1 (keptZ_pos_sorted drop keys)
  obtain ⟨ha, hb⟩ := List.getElem?_eq_some_iff.1 hb
  obtain ⟨ha', hb'⟩ := List.getElem?_eq_some_iff.1 hb'
  rw [← hb, ← hb']
  exact hp a a' ha ha' haa'

/-- … and each `idx[t]` is the *first* position of the flattened input that holds the returned element -/
theorem unique_first (drop : κ → Bool) (keys : List κ) (t i : Nat) (k : κ)
    (hi : (uniqueSpec drop keys).idx[t]? = some i) (hk : (uniqueSpec drop keys).out[t]? = some k) :
    keys[i]? = some k ∧ ∀ j, j < i → keys[j]? ≠ some k := by
  have hsel := idx_selects drop keys t
  rw [hi, hk] at hsel
  refine ⟨by simpa using hsel.symm, ?_⟩
  intro j hj hjk
  have hkd : drop k = false := (unique_sound drop keys k (List.mem_of_getElem? hk)).2
  -- position of (k, j) in the kept list
  have hmem : (k, j) ∈ keptZ drop keys := (mem_keptZ drop keys k j).2 ⟨hjk, hkd⟩
  obtain ⟨a, ha, hza⟩ := List.getElem_of_mem hmem
  -- the first-occurrence index i0 with pos[i0] = i
  simp only [uniqueSpec] at hi hk
  have hall : ∀ a ∈ firstIdx ((keptZ drop keys).map (·.1)), (((keptZ drop keys).map (·.2))[a]?).isSome := by
    intro a ha
    have := firstIdx_all_some _ a ha
    simp only [List.getElem?_map, Option.isSome_map] at this ⊢
    exact this
  rw [filterMap_getElem?_of_all_some _ _ hall] at hi
  rw [outKeys_getElem?] at hk
  cases hi0 : (firstIdx ((keptZ drop keys).map (·.1)))[t]? with
  | none => rw [hi0] at hi; cases hi
  | some i0 =>
    rw [hi0] at hi hk
    simp only [Option.bind_some] at hi hk
    have hi0m : i0 ∈ firstIdx ((keptZ drop keys).map (·.1)) := List.mem_of_getElem? hi0
    obtain ⟨hi0l, hposi0⟩ := List.getElem?_eq_some_iff.1 hi
    have hp := List.pairwise_iff_getElem.1 (keptZ_pos_sorted drop keys)
    have hal : a < ((keptZ drop keys).map (·.2)).length := by simpa using ha
    have hposa : ((keptZ drop keys).map (·.2))[a] = j := by simp [hza]
    have hlt : a < i0 := by
      by_contra hge
      rcases Nat.lt_or_eq_of_le (Nat.le_of_not_lt hge) with h | h
      · have := hp i0 a hi0l hal h
        rw [hposi0, hposa] at this
        omega
      · subst h
        rw [hposa] at hposi0
        omega
    have := firstIdx_first _ i0 hi0m a hlt
    apply this
    rw [hk]
    simp [List.getElem?_map, List.getElem?_eq_getElem ha, hza]

/-- `inv` reconstructs the non-dropped entries of the flattened input from the returned elements:
entry `p` of the kept list equals `out[inv[p]]` -/
theorem inv_reconstructs (drop : κ → Bool) (keys : List κ) (p : Nat) (k : κ)
    (hk : (keys.filter (fun k => !drop k))[p]? = some k) :
    ∃ u, (uniqueSpec drop keys).inv[p]? = some u ∧ (uniqueSpec drop keys).out[u]? = some k := by
  simp only [uniqueSpec, keptZ_fst]
  exact invSpec_getElem? _ p k hk

/-- every `idx` entry is a position of the flattened input -/
theorem idx_in_range (drop : κ → Bool) (keys : List κ) (i : Nat) (hi : i ∈ (uniqueSpec drop keys).idx) :
    i < keys.length := by
  simp only [uniqueSpec, List.mem_filterMap, List.getElem?_map] at hi
  obtain ⟨a, _, ha⟩ := hi
  cases hz : (keptZ drop keys)[a]? with
  | none => rw [hz] at ha; cases ha
  | some p =>
    rw [hz] at ha
    simp only [Option.map_some, Option.some.injEq] at ha
    have hm : (p.1, p.2) ∈ keptZ drop keys := List.mem_of_getElem? hz
    have := ((mem_keptZ drop keys p.1 p.2).1 hm).1
    rw [ha] at this
    exact (List.getElem?_eq_some_iff.1 this).1

/-- elements and keys: for elements `xs` compared through `key`, the elements selected by `idx` from the
flattened input have exactly the returned keys — `unique_nodup`, `unique_cover`, `unique_first` and
`inv_reconstructs` therefore speak about the returned *elements* under the documented equality `key x = key y` -/
theorem idx_selects_elements {α : Type} (key : α → κ) (drop : κ → Bool) (xs : List α) :
    ((uniqueSpec drop (xs.map key)).idx.filterMap (fun i => xs[i]?)).map key = (uniqueSpec drop (xs.map key)).out := by
  apply List.ext_getElem?
  intro t
  have hall : ∀ i ∈ (uniqueSpec drop (xs.map key)).idx, (xs[i]?).isSome := by
    intro i hi
    have := idx_in_range drop (xs.map key) i hi
    rw [List.length_map] at this
    simp [List.getElem?_eq_getElem this]
  rw [List.getElem?_map, filterMap_getElem?_of_all_some _ _ hall, idx_selects]
  cases (uniqueSpec drop (xs.map key)).idx[t]? with
  | none => rfl
  | some i => simp [List.getElem?_map]

/-- without dropped entries the specification is: first-occurrence positions, the keys there, and the map
from every position to the output position of its key -/
theorem uniqueSpec_nodrop (keys : List κ) :
    uniqueSpec (fun _ => false) keys = ⟨outKeys keys, firstIdx keys, invSpec keys⟩ := by
  have hk : (keptZ (fun _ => false) keys).map (·.1) = keys := by
    rw [keptZ_fst]; simp
  have hz : keptZ (fun _ => false) keys = keys.zipIdx := by
    unfold keptZ; simp
  have hp : (keptZ (fun _ => false) keys).map (·.2) = List.range keys.length := by
    rw [hz, List.zipIdx_map_snd, List.range_eq_range']
  simp only [uniqueSpec, hk, hp, Result.mk.injEq, true_and, and_true]
  have hall : ∀ a ∈ firstIdx keys, ((List.range keys.length)[a]?).isSome := by
    intro a ha
    obtain ⟨k, hk', _⟩ := (mem_firstIdx keys a).1 ha
    have := (List.getElem?_eq_some_iff.1 hk').1
    simp [List.getElem?_range this]
  apply List.ext_getElem?
  intro u
  rw [filterMap_getElem?_of_all_some _ _ hall]
  cases hu : (firstIdx keys)[u]? with
  | none => rfl
  | some a =>
    obtain ⟨k, hk', _⟩ := (mem_firstIdx keys a).1 (List.mem_of_getElem? hu)
    have := (List.getElem?_eq_some_iff.1 hk').1
    simp [List.getElem?_range this]

/-! ## `Rotation.unique` is the specification -/

/-- For every list of keys (the empty one included) and every comparison function numpy may sort with: the
elements, `idx_sort` and the rebuilt inverse map returned by `Rotation.unique` are exactly those of the
specification. -/
theorem rotUnique_eq_spec (lt : κ → κ → Bool) (keys : List κ) :
    rotUnique lt keys = uniqueSpec (fun _ => false) keys := by
  rw [uniqueSpec_nodrop]
  simp only [rotUnique]
  rw [sort_npIdx]
  simp only [Result.mk.injEq, true_and]
  refine ⟨rfl, ?_⟩
  apply List.ext_getElem?
  intro p
  cases hp : keys[p]? with
  | none =>
    have hl : keys.length ≤ p := by
      rcases Nat.lt_or_ge p keys.length with h | h
      · rw [List.getElem?_eq_getElem h] at hp; cases hp
      · exact h
    rw [List.getElem?_eq_none, List.getElem?_eq_none]
    · simp [invSpec]; exact hl
    · refine Nat.le_trans (List.length_filterMap_le _ _) ?_
      simp [npUnique]; exact hl
  | some k =>
    obtain ⟨u, hu, _, hidx⟩ := npInv_getElem? lt keys p k hp
    have hall : ∀ v ∈ (npUnique lt keys).2.2,
        (((npUnique lt keys).2.1[v]?).map (fun i => (firstIdx keys).idxOf i)).isSome := by
      intro v hv
      obtain ⟨p', hp'l, hp'⟩ := List.getElem_of_mem hv
      have hlen : (npUnique lt keys).2.2.length = keys.length := by simp [npUnique]
      have hk' : keys[p']? = some keys[p'] := List.getElem?_eq_getElem (by omega)
      obtain ⟨u', hu', _, hidx'⟩ := npInv_getElem? lt keys p' _ hk'
      rw [List.getElem?_eq_getElem hp'l, hp'] at hu'
      cases hu'
      simp [hidx']
    rw [filterMap_getElem?_of_all_some _ _ hall, hu]
    simp only [Option.bind_some, hidx, Option.map_some, invSpec, List.getElem?_map, hp]

/-! ## `Object3d.unique`: the returned elements are right, `idx` and `inv` are numpy's -/

/-- the returned elements are those of the specification (no duplicates, cover, first-appearance order,
zero entries dropped) -/
theorem base_out_eq_spec (lt : κ → κ → Bool) (drop : κ → Bool) (keys : List κ) :
    (baseUnique lt drop keys).out = (uniqueSpec drop keys).out := by
  simp only [baseUnique, uniqueSpec, keptZ_fst]
  rw [sort_npIdx]
  rfl

/- Full statement that fails for the code as it is:
     (baseUnique lt drop keys).idx = (uniqueSpec drop keys).idx ∧ (baseUnique lt drop keys).inv = (uniqueSpec drop keys).inv
   What holds: -/

/-- `idx` as returned is a *permutation* of the first-appearance positions in the zero-removed rows (it is in
the order of numpy's sorted unique rows, and it does not refer to the flattened input when rows were dropped) -/
theorem base_idx_partial (lt : κ → κ → Bool) (drop : κ → Bool) (keys : List κ) :
    (baseUnique lt drop keys).idx.Perm (firstIdx (keys.filter (fun k => !drop k))) :=
  npIdx_perm lt _

/-- `inv` as returned reconstructs the zero-removed rows from numpy's *sorted* unique rows `U` (not from the
returned elements, which are in first-appearance order) -/
theorem base_inv_partial (lt : κ → κ → Bool) (drop : κ → Bool) (keys : List κ) (p : Nat) (k : κ)
    (hk : (keys.filter (fun k => !drop k))[p]? = some k) :
    ∃ u, (baseUnique lt drop keys).inv[p]? = some u ∧
      (npUnique lt (keys.filter (fun k => !drop k))).1[u]? = some k := by
  obtain ⟨u, hu, hU, _⟩ := npInv_getElem? lt _ p k hk
  exact ⟨u, hu, hU⟩

/-- if the first appearances already come in sorted order and nothing is dropped, `idx` and `inv` are right
(this is why small hand-written tests pass) -/
theorem base_idx_inv_of_sorted (lt : κ → κ → Bool) (keys : List κ)
    (hs : (npUnique lt keys).2.1.Pairwise (· < ·)) :
    (baseUnique lt (fun _ => false) keys).idx = (uniqueSpec (fun _ => false) keys).idx := by
  rw [uniqueSpec_nodrop]
  have hf : keys.filter (fun k => !(fun _ => false) k) = keys := by simp
  simp only [baseUnique, hf]
  refine List.Pairwise.eq_of_mem_iff hs (firstIdx_sorted keys) (mem_npIdx lt keys)

/-- counter-example: rows 3, 1, 0 (dropped), 3, 2.  Returned elements 3, 1, 2 (correct); the code returns
`idx = [1, 3, 0]` and `inv = [2, 0, 2, 1]`, the specification `idx = [0, 1, 4]`, `inv = [0, 1, 0, 2]`:
`flat[idx] = 1, 3, 3 ≠ out`, `out[inv] = 2, 3, 2, 1 ≠ 3, 1, 3, 2`. -/
theorem base_idx_inv_counterexample :
    baseUnique (fun a b : Int => decide (a < b)) (fun k => k == 0) [3, 1, 0, 3, 2] = ⟨[3, 1, 2], [1, 3, 0], [2, 0, 2, 1]⟩ ∧
    uniqueSpec (fun k : Int => k == 0) [3, 1, 0, 3, 2] = ⟨[3, 1, 2], [0, 1, 4], [0, 1, 0, 2]⟩ := by
  decide

/-! ## the antipodal key -/

/-- `q` and `-q` have the same differentiators (and the improper flag is compared separately) -/
theorem differentiators_neg (q : Quat ℝ) : differentiators (Quat.neg q) = differentiators q := by
  simp only [differentiators, Quat.neg, List.cons.injEq, and_true]
  refine ⟨?_, ?_, ?_, ?_, ?_, ?_, ?_, ?_, ?_, ?_⟩ <;> ring

/-- The ten quadratic differentiators determine a quaternion up to sign: they are equal iff `q' = q` or
`q' = -q`.  (No unit-norm hypothesis is needed.) -/
theorem differentiators_eq_iff (p q : Quat ℝ) :
    differentiators p = differentiators q ↔ p = q ∨ p = Quat.neg q := by
  constructor
  · intro h
    obtain ⟨a, b, c, d⟩ := p
    obtain ⟨a', b', c', d'⟩ := q
    simp only [differentiators, List.cons.injEq, and_true] at h
    obtain ⟨haa, hbb, hcc, hdd, hab, hac, had, hbc, hbd, hcd⟩ := h
    simp only [Quat.neg, Quat.mk.injEq]
    exact UniqueKey.eq_or_neg_of_monomials haa hbb hcc hdd hab hac had hbc hbd hcd
  · rintro (rfl | rfl)
    · rfl
    · exact differentiators_neg q

/-- hence with `antipodal=True` two rotations get the same (unrounded) key iff they have the same improper
flag and `q' = ±q`: the documented notion of equality -/
theorem antipodal_key_iff (p q : Quat ℝ) (fp fq : Bool) :
    (differentiators p, fp) = (differentiators q, fq) ↔ (p = q ∨ p = Quat.neg q) ∧ fp = fq := by
  rw [Prod.mk.injEq, differentiators_eq_iff]

/-! ## non-vacuity -/

example : rotUnique (fun a b : Int => decide (a < b)) [5, 3, 5, 1, 3] = ⟨[5, 3, 1], [0, 1, 3], [0, 1, 0, 2, 1]⟩ := by
  decide
example : uniqueSpec (fun k : Int => k == 0) [0, 2, 0, 2, 1] = ⟨[2, 1], [1, 4], [0, 0, 1]⟩ := by decide
example : differentiators (⟨1, 2, 3, 4⟩ : Quat ℝ) = differentiators ⟨-1, -2, -3, -4⟩ := by
  rw [differentiators_eq_iff]; right; simp [Quat.neg]

end Orix.C17
