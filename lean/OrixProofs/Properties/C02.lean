import Mathlib.Tactic.Ring
import Mathlib.Tactic.FieldSimp
import Mathlib.Tactic.LinearCombination
import OrixProofs.Lemmas.RealScalar
import OrixModel.Quat
/-
C02 — quaternion and rotation products form a faithful group action on vectors.
All statements are over ℝ and quantify over *all* quaternions / rotations / vectors.
Only property theorems and non-vacuity examples live in this file.
-/
namespace Orix.C02
open Orix Scalar

macro "qsimp" : tactic =>
  `(tactic| simp only [Quat.mul, Quat.conj, Quat.inv, Quat.normSq, Quat.rotate, Quat.toMat, Quat.one,
      Quat.neg, Quat.divS, Quat.scale, Quat.ofVec, Quat.vec, Quat.rotateSandwich, Quat.dot,
      Mat3.mul, Mat3.mulVec, Mat3.one, Mat3.transpose, Mat3.det,
      Vec3.dot, Vec3.cross, Vec3.normSq, Vec3.neg, Vec3.add, Vec3.sub, Vec3.smul,
      Rot.mul, Rot.inv, Rot.neg, Rot.act, lit_real, Nat.cast_ofNat, Nat.cast_one, Nat.cast_zero])

/-- Hamilton product is associative. -/
theorem mul_assoc (p q r : Quat ℝ) : Quat.mul (Quat.mul p q) r = Quat.mul p (Quat.mul q r) := by
  qsimp; congr 1 <;> ring

theorem one_mul (q : Quat ℝ) : Quat.mul Quat.one q = q := by
  cases q; qsimp; congr 1 <;> ring
theorem mul_one (q : Quat ℝ) : Quat.mul q Quat.one = q := by
  cases q; qsimp; congr 1 <;> ring

/-- The norm is multiplicative, so products of unit quaternions stay unit. -/
theorem normSq_mul (p q : Quat ℝ) : Quat.normSq (Quat.mul p q) = Quat.normSq p * Quat.normSq q := by
  qsimp; ring
theorem unit_mul_unit (p q : Quat ℝ) (hp : Quat.normSq p = 1) (hq : Quat.normSq q = 1) :
    Quat.normSq (Quat.mul p q) = 1 := by rw [normSq_mul, hp, hq]; norm_num

/-- `R * ~R` is the identity, for every non-zero quaternion (`~` divides by the squared norm). -/
theorem mul_inv_cancel (q : Quat ℝ) (h : Quat.normSq q ≠ 0) : Quat.mul q (Quat.inv q) = Quat.one := by
  have h' : q.a * q.a + q.b * q.b + q.c * q.c + q.d * q.d ≠ 0 := h
  qsimp; congr 1
  · rw [show q.a * (q.a / _) - q.b * (-q.b / _) - q.c * (-q.c / _) - q.d * (-q.d / _)
      = (q.a * q.a + q.b * q.b + q.c * q.c + q.d * q.d) / (q.a * q.a + q.b * q.b + q.c * q.c + q.d * q.d) by ring]
    simpa using div_self h'
  all_goals ring
theorem inv_mul_cancel (q : Quat ℝ) (h : Quat.normSq q ≠ 0) : Quat.mul (Quat.inv q) q = Quat.one := by
  have h' : q.a * q.a + q.b * q.b + q.c * q.c + q.d * q.d ≠ 0 := h
  qsimp; congr 1
  · rw [show q.a / _ * q.a - -q.b / _ * q.b - -q.c / _ * q.c - -q.d / _ * q.d
      = (q.a * q.a + q.b * q.b + q.c * q.c + q.d * q.d) / (q.a * q.a + q.b * q.b + q.c * q.c + q.d * q.d) by ring]
    simpa using div_self h'
  all_goals ring
/-- for unit quaternions the inverse is the conjugate -/
theorem inv_eq_conj (q : Quat ℝ) (h : Quat.normSq q = 1) : Quat.inv q = Quat.conj q := by
  simp only [Quat.inv, h, Quat.divS, div_one]

/-- `vec (q v q̄)`: the homogeneous (degree-2) form of the rotation, used as a proof device. -/
noncomputable def sandC (q : Quat ℝ) (v : Vec3 ℝ) : Vec3 ℝ := Quat.vec (Quat.mul (Quat.mul q (Quat.ofVec v)) (Quat.conj q))
theorem dot_sandC (q : Quat ℝ) (u v : Vec3 ℝ) :
    Vec3.dot (sandC q u) (sandC q v) = Quat.normSq q * Quat.normSq q * Vec3.dot u v := by
  simp only [sandC]; qsimp; ring
theorem cross_sandC (q : Quat ℝ) (u v : Vec3 ℝ) :
    Vec3.cross (sandC q u) (sandC q v) = Vec3.smul (Quat.normSq q) (sandC q (Vec3.cross u v)) := by
  simp only [sandC]; qsimp; congr 1 <;> ring
theorem rotate_eq_sandC (q : Quat ℝ) (v : Vec3 ℝ) (h : Quat.normSq q = 1) :
    Quat.rotate q v = sandC q v := by
  have h' : q.a * q.a + q.b * q.b + q.c * q.c + q.d * q.d = 1 := h
  simp only [sandC]; qsimp
  congr 1
  · linear_combination (-v.x) * h'
  · linear_combination (-v.y) * h'
  · linear_combination (-v.z) * h'

/-- The built-in kernel (`qu_rotate_vec_gufunc`) and the numpy-quaternion sandwich product
`(q v) q⁻¹` are the same map on unit quaternions. -/
theorem rotate_eq_sandwich (q : Quat ℝ) (v : Vec3 ℝ) (h : Quat.normSq q = 1) :
    Quat.rotateSandwich q v = Quat.rotate q v := by
  have h' : q.a * q.a + q.b * q.b + q.c * q.c + q.d * q.d = 1 := h
  simp only [Quat.rotateSandwich, inv_eq_conj q h]
  qsimp
  congr 1
  · linear_combination (v.x) * h'
  · linear_combination (v.y) * h'
  · linear_combination (v.z) * h'

/-- Composition: `(p*q)*v = p*(q*v)` for unit quaternions. -/
theorem rotate_mul (p q : Quat ℝ) (v : Vec3 ℝ) (hp : Quat.normSq p = 1) (hq : Quat.normSq q = 1) :
    Quat.rotate (Quat.mul p q) v = Quat.rotate p (Quat.rotate q v) := by
  have hp' : p.a * p.a + p.b * p.b + p.c * p.c + p.d * p.d = 1 := hp
  have hq' : q.a * q.a + q.b * q.b + q.c * q.c + q.d * q.d = 1 := hq
  rw [← rotate_eq_sandwich _ _ (unit_mul_unit p q hp hq), ← rotate_eq_sandwich p _ hp,
    ← rotate_eq_sandwich q _ hq]
  simp only [Quat.rotateSandwich, inv_eq_conj _ hp, inv_eq_conj _ hq,
    inv_eq_conj _ (unit_mul_unit p q hp hq)]
  qsimp
  congr 1 <;> ring

/-- Matrix times vector equals quaternion times vector (no unit hypothesis needed for this form:
the matrix kernel and the rotation kernel are the same polynomial only on the unit sphere). -/
theorem toMat_mulVec (q : Quat ℝ) (v : Vec3 ℝ) (h : Quat.normSq q = 1) :
    Mat3.mulVec (Quat.toMat q) v = Quat.rotate q v := by
  have h' : q.a * q.a + q.b * q.b + q.c * q.c + q.d * q.d = 1 := h
  qsimp
  congr 1
  · linear_combination (v.x) * h'
  · linear_combination (v.y) * h'
  · linear_combination (v.z) * h'

/-- The matrix of a product is the product of the matrices. -/
theorem toMat_mul (p q : Quat ℝ) : Quat.toMat (Quat.mul p q) = Mat3.mul (Quat.toMat p) (Quat.toMat q) := by
  qsimp; congr 1 <;> ring

/-- Orientation matrices of unit quaternions are orthogonal with determinant one. -/
theorem toMat_orthogonal (q : Quat ℝ) (h : Quat.normSq q = 1) :
    Mat3.mul (Quat.toMat q) (Mat3.transpose (Quat.toMat q)) = Mat3.one := by
  have h' : q.a * q.a + q.b * q.b + q.c * q.c + q.d * q.d = 1 := h
  qsimp
  congr 1
  · linear_combination (q.a * q.a + q.b * q.b + q.c * q.c + q.d * q.d + 1) * h'
  · ring
  · ring
  · ring
  · linear_combination (q.a * q.a + q.b * q.b + q.c * q.c + q.d * q.d + 1) * h'
  · ring
  · ring
  · ring
  · linear_combination (q.a * q.a + q.b * q.b + q.c * q.c + q.d * q.d + 1) * h'
theorem toMat_det (q : Quat ℝ) (h : Quat.normSq q = 1) : Mat3.det (Quat.toMat q) = 1 := by
  have h' : q.a * q.a + q.b * q.b + q.c * q.c + q.d * q.d = 1 := h
  qsimp
  linear_combination ((q.a * q.a + q.b * q.b + q.c * q.c + q.d * q.d) ^ 2
    + (q.a * q.a + q.b * q.b + q.c * q.c + q.d * q.d) + 1) * h'

/-- Rotated vectors keep their mutual angles and lengths (dot products preserved). -/
theorem rotate_dot (q : Quat ℝ) (u v : Vec3 ℝ) (h : Quat.normSq q = 1) :
    Vec3.dot (Quat.rotate q u) (Quat.rotate q v) = Vec3.dot u v := by
  rw [rotate_eq_sandC q u h, rotate_eq_sandC q v h, dot_sandC, h]; ring
theorem rotate_normSq (q : Quat ℝ) (v : Vec3 ℝ) (h : Quat.normSq q = 1) :
    Vec3.normSq (Quat.rotate q v) = Vec3.normSq v := rotate_dot q v v h
/-- Handedness is preserved: rotation commutes with the cross product. -/
theorem rotate_cross (q : Quat ℝ) (u v : Vec3 ℝ) (h : Quat.normSq q = 1) :
    Vec3.cross (Quat.rotate q u) (Quat.rotate q v) = Quat.rotate q (Vec3.cross u v) := by
  rw [rotate_eq_sandC q u h, rotate_eq_sandC q v h, rotate_eq_sandC q _ h, cross_sandC, h]
  simp [Vec3.smul]

/-- `-q` is the same rotation as `q`. -/
theorem rotate_neg (q : Quat ℝ) (v : Vec3 ℝ) : Quat.rotate (Quat.neg q) v = Quat.rotate q v := by
  qsimp; congr 1 <;> ring

/-! ### improper rotations -/

/-- An improper rotation acts as its proper part followed by inversion. -/
theorem act_improper (q : Quat ℝ) (v : Vec3 ℝ) :
    Rot.act ⟨q, true⟩ v = Vec3.neg (Rot.act ⟨q, false⟩ v) := by
  simp [Rot.act]
/-- Inversion commutes with the proper part. -/
theorem rotate_vneg (q : Quat ℝ) (v : Vec3 ℝ) : Quat.rotate q (Vec3.neg v) = Vec3.neg (Quat.rotate q v) := by
  qsimp; congr 1 <;> ring
/-- Properness combines by parity under products … -/
theorem improper_mul (r s : Rot ℝ) : (Rot.mul r s).improper = xor r.improper s.improper := rfl
/-- … is kept by inverses … -/
theorem improper_inv (r : Rot ℝ) : (Rot.inv r).improper = r.improper := rfl
/-- … and toggled by unary minus, which keeps the proper part. -/
theorem improper_neg (r : Rot ℝ) : (Rot.neg r).improper = !r.improper ∧ (Rot.neg r).q = r.q := ⟨rfl, rfl⟩
theorem neg_neg (r : Rot ℝ) : Rot.neg (Rot.neg r) = r := by cases r; simp [Rot.neg]

/-- Composition of possibly improper rotations is a group action: `(r*s)*v = r*(s*v)`. -/
theorem act_mul (r s : Rot ℝ) (v : Vec3 ℝ) (hr : Quat.normSq r.q = 1) (hs : Quat.normSq s.q = 1) :
    Rot.act (Rot.mul r s) v = Rot.act r (Rot.act s v) := by
  obtain ⟨p, i⟩ := r
  obtain ⟨q, j⟩ := s
  have key := rotate_mul p q v hr hs
  cases i <;> cases j <;> simp [Rot.act, Rot.mul, key, rotate_vneg] <;> (qsimp; try (congr 1 <;> ring))
/-- `r * ~r` acts as the identity. -/
theorem act_mul_inv (r : Rot ℝ) (v : Vec3 ℝ) (hr : Quat.normSq r.q = 1) :
    Rot.act (Rot.mul r (Rot.inv r)) v = v := by
  obtain ⟨p, i⟩ := r
  have hn : Quat.normSq p ≠ 0 := by rw [show Quat.normSq p = 1 from hr]; norm_num
  have h1 : Quat.mul p (Quat.inv p) = Quat.one := mul_inv_cancel p hn
  cases i <;> simp only [Rot.act, Rot.mul, Rot.inv, h1, Bool.xor_self, Bool.false_eq_true, if_false] <;>
    (qsimp; cases v; simp)
/-- Improper rotations also preserve dot products (lengths and mutual angles). -/
theorem act_dot (r : Rot ℝ) (u v : Vec3 ℝ) (h : Quat.normSq r.q = 1) :
    Vec3.dot (Rot.act r u) (Rot.act r v) = Vec3.dot u v := by
  obtain ⟨p, i⟩ := r
  have key := rotate_dot p u v h
  cases i
  · simpa [Rot.act] using key
  · simp only [Rot.act, if_true]
    rw [← key]; qsimp; ring

/-! ### non-vacuity: the hypotheses are met by concrete non-trivial rotations -/
example : Quat.normSq (⟨1/2, 1/2, 1/2, 1/2⟩ : Quat ℝ) = 1 := by simp only [Quat.normSq]; norm_num
example : Quat.normSq (⟨0, 3/5, -4/5, 0⟩ : Quat ℝ) = 1 := by simp only [Quat.normSq]; norm_num
example : Quat.rotate (⟨1/2, 1/2, 1/2, 1/2⟩ : Quat ℝ) ⟨1, 0, 0⟩ = ⟨0, 1, 0⟩ := by
  qsimp; norm_num

end Orix.C02
