import OrixProofs.Properties.C04
import OrixProofs.Properties.C02
/-
C06 — all symmetry-aware operations agree on one equivalence relation.

The single relation: `O' ~ O  :⇔  ∃ g ∈ G, O' = g·O` as rotations (same properness, quaternion up to sign) — LEFT
multiplication by the crystal symmetry, which is what `equivalent()`, `angle_with`/`dot`, the Euler fundamental
region (`_special_rotation.outer(O)` and the modulo on φ₂) and the crystal direction `O·v` all use.
Proved for every finite rotation group `G` (`IsRotGroup`, C04) and all unit orientations:
it is an equivalence relation; equivalent orientations have reduced dot product 1 (zero reduced angle), the same
reduced dot product to any third orientation, and crystal directions `O'·v = g·(O·v)` in one orbit of `G`, hence
(C07, C08) the same direction in the fundamental sector and the same IPF colour.
`Orientation.map_into_symmetry_reduced_zone` multiplies on the RIGHT (`O·g`); that `O·g ~ O` holds when `g`
commutes with `O` (`_partial`) and fails in general (proved witness) — a known finding pinned by orix tests.
-/
namespace Orix.C06
open Orix Orix.Dis Orix.C04

/-- symmetrically equivalent orientations (left multiplication), as rotations -/
def Equivalent (G : List (Rot ℝ)) (O O' : Rot ℝ) : Prop :=
  ∃ g ∈ G, O'.improper = (Rot.mul g O).improper ∧ PM O'.q (Rot.mul g O).q

theorem equivalent_refl {G : List (Rot ℝ)} (hG : IsRotGroup G) (O : Rot ℝ) : Equivalent G O O := by
  obtain ⟨e, he, hei, heq⟩ := hG.one_mem
  refine ⟨e, he, ?_, ?_⟩
  · simp only [Rot.mul, hei, Bool.false_xor]
  · simp only [Rot.mul]
    rcases heq with h | h
    · left; rw [h, one_mul]
    · right; rw [h, neg_mul, one_mul, Dis.neg_neg]

theorem equivalent_trans {G : List (Rot ℝ)} (hG : IsRotGroup G) {O O' O'' : Rot ℝ}
    (h1 : Equivalent G O O') (h2 : Equivalent G O' O'') : Equivalent G O O'' := by
  obtain ⟨g, hg, hgi, hgq⟩ := h1
  obtain ⟨h, hh, hhi, hhq⟩ := h2
  obtain ⟨s, hs, hsi, hsq⟩ := hG.mul_mem h hh g hg
  refine ⟨s, hs, ?_, ?_⟩
  · rw [hhi]; simp only [Rot.mul] at hgi hsi ⊢; rw [hgi, hsi]
    cases h.improper <;> cases g.improper <;> cases O.improper <;> rfl
  · simp only [Rot.mul] at hgq hhq hsq ⊢
    have e1 : PM O''.q (Quat.mul h.q (Quat.mul g.q O.q)) := PM.trans hhq (PM.mul_left hgq h.q)
    rw [← mul_assoc] at e1
    have e2 : PM (Quat.mul (Quat.mul h.q g.q) O.q) (Quat.mul s.q O.q) := PM.mul_right (pm_symm hsq) O.q
    exact PM.trans e1 e2

theorem equivalent_symm {G : List (Rot ℝ)} (hG : IsRotGroup G) {O O' : Rot ℝ}
    (h : Equivalent G O O') : Equivalent G O' O := by
  obtain ⟨g, hg, hgi, hgq⟩ := h
  obtain ⟨gi, hgi', hgii, hgiq⟩ := hG.inv_mem g hg
  refine ⟨gi, hgi', ?_, ?_⟩
  · simp only [Rot.mul, rconj] at hgi hgii ⊢
    rw [hgi, hgii]; cases g.improper <;> cases O.improper <;> rfl
  · simp only [Rot.mul, rconj] at hgq hgiq ⊢
    -- gi·O' = ± conj(g)·(± g·O) = ± O
    have e1 : PM (Quat.mul gi.q O'.q) (Quat.mul (Quat.conj g.q) (Quat.mul g.q O.q)) :=
      PM.trans (PM.mul_right hgiq O'.q) (PM.mul_left hgq (Quat.conj g.q))
    rw [← mul_assoc, conj_mul_self g.q (hG.unit g hg), one_mul] at e1
    exact pm_symm e1

/-- ZERO ANGLE: equivalent unit orientations have reduced dot product 1. -/
theorem equivalent_dot_one {G : List (Rot ℝ)} (hG : IsRotGroup G) {O O' : Rot ℝ} (hO : Quat.normSq O.q = 1)
    (h : Equivalent G O O') : bruteDot G G O O' = 1 := by
  obtain ⟨g, hg, hgi, hgq⟩ := h
  rw [← bruteDot_equivalent hG hg hO]
  unfold bruteDot
  congr 1
  apply List.map_congr_left
  intro p _
  rw [rdot_comm, rdot_comm (Rot.mul p.2 (Rot.mul g O))]
  apply rdot_congr
  · simp only [Rot.mul] at hgi ⊢; rw [hgi]
  · simp only [Rot.mul] at hgq ⊢; exact PM.mul_left hgq p.2.q

/-- SAME ANGLE TO ANY THIRD ORIENTATION (whatever the third orientation's symmetry). -/
theorem equivalent_same_dot_to_third {G G3 : List (Rot ℝ)} (hG : IsRotGroup G) {O O' : Rot ℝ} (O3 : Rot ℝ)
    (h : Equivalent G O O') : bruteDot G G3 O' O3 = bruteDot G G3 O O3 := by
  obtain ⟨g, hg, hgi, hgq⟩ := h
  rw [← bruteDot_equiv_left hG hg O O3]
  unfold bruteDot
  congr 1
  apply List.map_congr_left
  intro p _
  apply rdot_congr
  · simp only [Rot.mul] at hgi ⊢; rw [hgi]
  · simp only [Rot.mul] at hgq ⊢; exact PM.mul_left hgq p.1.q

/-- SAME CRYSTAL DIRECTION ORBIT: `O'·v = g·(O·v)` for unit rotations — so the sample direction `v` is mapped to
symmetry-equivalent crystal directions, which the fundamental sector (C07) and the colour key (C08) identify. -/
theorem equivalent_crystal_direction {G : List (Rot ℝ)} (hG : IsRotGroup G) {O O' : Rot ℝ} (hO : Quat.normSq O.q = 1)
    (h : Equivalent G O O') (v : Vec3 ℝ) : ∃ g ∈ G, Rot.act O' v = Rot.act g (Rot.act O v) := by
  obtain ⟨g, hg, hgi, hgq⟩ := h
  refine ⟨g, hg, ?_⟩
  rw [← C02.act_mul g O v (hG.unit g hg) hO]
  simp only [Rot.act, hgi]
  have : Quat.rotate O'.q v = Quat.rotate (Rot.mul g O).q v := by
    rcases hgq with h | h
    · rw [h]
    · rw [h, C02.rotate_neg]
  rw [this]

/-! ### the reduced-zone representative of an `Orientation` is `O·g` (right multiplication) -/

/-- partial: right multiplication stays in the class when the operation commutes with the orientation -/
theorem right_mult_equivalent_partial {G : List (Rot ℝ)} {O g : Rot ℝ} (hg : g ∈ G)
    (hc : Quat.mul O.q g.q = Quat.mul g.q O.q) : Equivalent G O (Rot.mul O g) := by
  refine ⟨g, hg, ?_, ?_⟩
  · simp only [Rot.mul, Bool.xor_comm]
  · simp only [Rot.mul]; exact Or.inl hc

/-- the group 222 as unit quaternions -/
noncomputable def D2 : List (Rot ℝ) :=
  [⟨⟨1, 0, 0, 0⟩, false⟩, ⟨⟨0, 1, 0, 0⟩, false⟩, ⟨⟨0, 0, 1, 0⟩, false⟩, ⟨⟨0, 0, 0, 1⟩, false⟩]

/-- WITNESS (known finding): for symmetry 222, `O = (3/5, 4/5, 0, 0)` and the two-fold about y, the right product
`O·g` is not equivalent to `O`. -/
theorem right_mult_not_equivalent :
    ¬ Equivalent D2 ⟨⟨3 / 5, 4 / 5, 0, 0⟩, false⟩ (Rot.mul ⟨⟨3 / 5, 4 / 5, 0, 0⟩, false⟩ ⟨⟨0, 0, 1, 0⟩, false⟩) := by
  rintro ⟨g, hg, _, hq⟩
  simp only [D2, List.mem_cons, List.mem_nil_iff, or_false] at hg
  rcases hg with rfl | rfl | rfl | rfl <;>
    (simp only [Rot.mul, Quat.mul, PM, Quat.neg, Quat.mk.injEq] at hq; norm_num at hq)

end Orix.C06
