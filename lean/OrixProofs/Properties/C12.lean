import OrixProofs.Lemmas.XMapInv
/-
C12 — crystal-map phase bookkeeping stays consistent.

Model: `OrixModel/PhaseList.lean` (`PhaseList._dict` as an insertion-ordered dictionary that the methods
re-sort) and `OrixModel/XMap.lean` (`Sys`: the full-size arrays, the phase list and the masks of a map and
of all selections made from it; `init` = `CrystalMap.__init__`, `step` = one operation).

Invariant `Inv s` (`Lemmas/XMapInv.lean`): phase ids strictly ascending (hence unique); every phase id of
every original point has an entry; an entry has id -1 iff it is called "not_indexed"; no id below -1.
It is stated over *all* original points, so it holds for the root map and for every selection.
Admissibility (`XMap.admissible`, decidable): assigned ids are -1 or already in the list, a deleted phase is
not in use, no added phase is called "not_indexed".

Only property theorems and non-vacuity examples live in this file.
-/
namespace Orix.C12
open Orix Orix.XMap

/-! ### the invariant holds after construction … -/

/-- … without a phase list, for every phase-id array (ids ≥ -1), grid, properties and mask -/
theorem inv_init_none (g : Grid) (pid : Nat → Int) (props : List (String × (Nat → Int))) (mask : Mask)
    (hlow : ∀ p, p < g.size → -1 ≤ pid p) : Inv (init g pid none props mask) :=
  inv_init_none' g pid props mask hlow

/-- … with ANY caller phase list (fewer, as many or more phases than ids, any ids, with or without a
`not_indexed` entry) that has pairwise distinct ids — every `PhaseList` has, see `constructor_forms_sorted` —
and in which only id -1 may be called "not_indexed".  Full strength for the constructor as it is now
(`fix:` 1077dd8). -/
theorem inv_init_some (g : Grid) (pid : Nat → Int) (pl : PhaseList) (props : List (String × (Nat → Int)))
    (mask : Mask) (hlow : ∀ p, p < g.size → -1 ≤ pid p) (hnd : (PhaseList.ids pl).Nodup)
    (hwf : ∀ e ∈ pl, e.2.name = "not_indexed" → e.1 = -1) :
    Inv (init g pid (some pl) props mask) :=
  inv_init_some' g pid pl props mask hlow hnd hwf

/-- the defect repaired by `fix:` 1077dd8, pinned on the pre-fix constructor `initOld`: it establishes the
invariant only for caller lists without any phase called "not_indexed" … -/
theorem initOld_inv_partial (g : Grid) (pid : Nat → Int) (pl : PhaseList)
    (props : List (String × (Nat → Int))) (mask : Mask) (hlow : ∀ p, p < g.size → -1 ≤ pid p)
    (hnd : (PhaseList.ids pl).Nodup) (hnames : ∀ e ∈ pl, e.2.name ≠ "not_indexed") :
    Inv (initOld g pid (some pl) props mask) :=
  inv_initOld_some' g pid pl props mask hlow hnd hnames

/-- … proved counter-example: the caller's list {-1: not_indexed, 0: a, 1: b} and data ids 0, 1, 2 gave
{0: not_indexed, 1: a, 2: b}; the constructor as it is now gives {0: a, 1: b, 2: default} -/
theorem initOld_relinks_not_indexed :
    (initOld ⟨1, 3⟩ (fun p => p) (some witnessCallerList) [] (fun _ => true)).phases
      = [(0, Phase.notIndexed), (1, ⟨"a", some "m-3m", 1⟩), (2, ⟨"b", some "432", 2⟩)] ∧
    ¬ Inv (initOld ⟨1, 3⟩ (fun p => p) (some witnessCallerList) [] (fun _ => true)) ∧
    (init ⟨1, 3⟩ (fun p => p) (some witnessCallerList) [] (fun _ => true)).phases
      = [(0, ⟨"a", some "m-3m", 1⟩), (1, ⟨"b", some "432", 2⟩), (2, Phase.dflt)] := by
  have h : (initOld ⟨1, 3⟩ (fun p => p) (some witnessCallerList) [] (fun _ => true)).phases
      = [(0, Phase.notIndexed), (1, ⟨"a", some "m-3m", 1⟩), (2, ⟨"b", some "432", 2⟩)] := by decide
  refine ⟨h, fun hinv => ?_, by decide⟩
  have := (hinv.pl.notIdx (0, Phase.notIndexed) (by rw [h]; simp)).2 rfl
  simp at this

/-- every constructor form of `PhaseList` (list, dict, single phase, keyword lists with padding) yields
strictly ascending — hence unique — ids -/
theorem constructor_forms_sorted :
    (∀ phases is, (PhaseList.ids (PhaseList.ofList phases is)).Pairwise (· < ·)) ∧
    (∀ es, (PhaseList.ids (PhaseList.ofDict es)).Pairwise (· < ·)) ∧
    (∀ p i, (PhaseList.ids (PhaseList.ofSingle p i)).Pairwise (· < ·)) ∧
    (∀ names sgs pgs is tags d, PhaseList.ofKeywords names sgs pgs is tags = some d →
      (PhaseList.ids d).Pairwise (· < ·)) :=
  ⟨PhaseList.sorted_ofList, PhaseList.sorted_ofDict, PhaseList.sorted_ofSingle, PhaseList.sorted_ofKeywords⟩

/-- **linking rule of the constructor**: the map's phase list has exactly one phase per non-negative id of
the data (`uniq`, ascending), and every phase is one of the caller's or a default phase … -/
theorem constructor_linking_rule (uniq : List Int) (pl : PhaseList) (hu : uniq.Pairwise (· < ·))
    (hpl : (PhaseList.ids pl).Nodup) :
    PhaseList.ids (reconcile uniq pl) = uniq ∧
      ∀ e ∈ reconcile uniq pl, e.2 = Phase.dflt ∨ ∃ f ∈ pl, f.2 = e.2 :=
  reconcile_spec uniq pl hu hpl

/-- … with as many phases as ids they are linked by position in the list, not by id -/
theorem constructor_links_by_order (uniq : List Int) (pl : PhaseList) (hu : uniq.Pairwise (· < ·))
    (hlen : pl.length = uniq.length) : reconcile uniq pl = uniq.zip (pl.map (·.2)) := by
  have hl : (PhaseList.ids pl).length = uniq.length := by simpa [PhaseList.ids] using hlen
  unfold reconcile
  simp only [hl, gt_iff_lt, lt_self_iff_false, if_false]
  apply PhaseList.ofPairs_of_nodup
  rw [List.map_fst_zip (by simp [hlen])]
  exact PhaseList.nodup_of_sorted hu

/-! ### … and is preserved by every admissible operation, hence along every finite history -/

theorem inv_preserved (s : Sys) (h : Inv s) (o : Op) (ha : admissible s o = true) : Inv (step s o).1 :=
  inv_step h o ha

theorem inv_history (s : Sys) (h : Inv s) (os : List Op) (ha : admissibleAll s os = true) :
    Inv (runOps s os) :=
  inv_runOps h os ha

/-- constructor followed by any admissible history -/
theorem inv_init_history (g : Grid) (pid : Nat → Int) (props : List (String × (Nat → Int))) (mask : Mask)
    (hlow : ∀ p, p < g.size → -1 ≤ pid p) (os : List Op)
    (ha : admissibleAll (init g pid none props mask) os = true) :
    Inv (runOps (init g pid none props mask) os) :=
  inv_runOps (inv_init_none' g pid props mask hlow) os ha

/-- what the invariant says for one selection: every phase id held by a point of the selection has an entry -/
theorem selection_ids_in_list (s : Sys) (h : Inv s) (m : Mask) :
    ∀ i ∈ (ids s.n m).map s.phaseId, i ∈ PhaseList.ids s.phases := by
  intro i hi
  obtain ⟨p, hp, rfl⟩ := List.mem_map.1 hi
  exact h.covers p (mem_ids.1 hp).1

/-! ### phases in data -/

/-- **`phases_in_data` holds exactly the ids present** (the code as it is now, `fix:` bb01d48): for every
non-empty selection it returns exactly the entries whose id is held by a point of the selection, and their
ids are exactly the ids present (ascending, once each) -/
theorem phasesInData_exact (s : Sys) (h : Inv s) (m : Mask) (hne : ids s.n m ≠ []) :
    phasesInData s m = .ok (phasesInDataSpec s m) ∧
      PhaseList.ids (phasesInDataSpec s m) = uniqueSorted ((ids s.n m).map s.phaseId) :=
  ⟨phasesInData_eq h hne, ids_spec h m⟩

/-- the defect repaired by `fix:` bb01d48, pinned on the pre-fix `phasesInDataOld` (id looked up again by
name): exact only when names identify phases … -/
theorem phasesInDataOld_exact_partial (s : Sys) (h : Inv s) (m : Mask) (hne : ids s.n m ≠ [])
    (hnames : ∀ e ∈ s.phases, ∀ f ∈ s.phases, e.2.name = f.2.name → e = f) :
    phasesInDataOld s m = .ok (phasesInDataSpec s m) :=
  phasesInDataOld_eq_of_names h hne hnames

/-- … proved counter-example: two unnamed phases 0 and 1, the selection holds only id 1; the old code listed
id 0, the code as it is now lists id 1 -/
theorem phasesInDataOld_wrong_id :
    Inv witnessTwoUnnamed ∧
    (ids 3 (fun p => p != 0)).map witnessTwoUnnamed.phaseId = [1, 1] ∧
    phasesInDataOld witnessTwoUnnamed (fun p => p != 0) = .ok [(0, Phase.dflt)] ∧
    phasesInData witnessTwoUnnamed (fun p => p != 0) = .ok [(1, Phase.dflt)] := by
  refine ⟨inv_init_none' _ _ _ _ (by intro p _; by_cases h : p = 0 <;> simp [h]), ?_, ?_, ?_⟩ <;> decide

/-- **orientations**: whenever `orientations` is defined for a selection, all its points have the same phase
id and the symmetry is the point group of the phase stored under that id -/
theorem single_phase_orientations_symmetry (s : Sys) (h : Inv s) (m : Mask) (sy : Option String)
    (ho : orientationsSym s m = .ok sy) :
    ∃ i p, (i, p) ∈ s.phases ∧ p.sym = sy ∧ ∀ q ∈ ids s.n m, s.phaseId q = i :=
  orientationsSym_spec h ho

/-! ### phase-list operations -/

/-- adding a phase whose name is already present is rejected, and nothing is added -/
theorem add_rejects_duplicate_name (d : PhaseList) (p : Phase) (ps : List Phase)
    (h : p.name ∈ PhaseList.names d) : PhaseList.add d (p :: ps) = (d, some .duplicateName) :=
  PhaseList.add_rejects d p ps h

/-- `add` never produces two phases with one name (a name repeated inside the added list is rejected too) -/
theorem add_keeps_names_unique (d : PhaseList) (ps : List Phase) (hn : (PhaseList.names d).Nodup)
    (hi : (PhaseList.ids d).Nodup) : (PhaseList.names (PhaseList.add d ps).1).Nodup :=
  PhaseList.names_nodup_add ps d hn hi

/-- ids stay strictly ascending under add, delete, add_not_indexed, sort (the phase-list part of
`inv_preserved`, for lists on their own) -/
theorem phaselist_ops_keep_sorted (d : PhaseList) (h : PhaseList.PLInv d) :
    (∀ ps, (∀ p ∈ ps, p.name ≠ "not_indexed") → PhaseList.PLInv (PhaseList.add d ps).1) ∧
    PhaseList.PLInv (PhaseList.addNotIndexed d) ∧
    PhaseList.sortById d = d ∧
    (∀ i, PhaseList.PLInv (d.filter fun e => !(e.1 == i))) :=
  ⟨fun ps hps => (PhaseList.plinv_add h ps hps).1, (PhaseList.plinv_addNotIndexed h).1,
   PhaseList.plinv_sortById_eq h, fun _ => PhaseList.plinv_filter h _⟩

/-- indexing by id, list, tuple or array of ids returns exactly the phases with those ids … -/
theorem getitem_exact_ids (d r : PhaseList) (hs : (PhaseList.ids d).Pairwise (· < ·)) (l : List Int)
    (h : PhaseList.getItem d (.idList l) = .ok r) :
    (∀ e, e ∈ r ↔ e ∈ d ∧ e.1 ∈ l) ∧ (∀ k ∈ l, k ∈ PhaseList.ids d) ∧ r.Sublist d ∧
      (PhaseList.ids r).Pairwise (· < ·) :=
  PhaseList.getItem_idList_ok hs l h

/-- … fails only for a missing id (or an empty request) … -/
theorem getitem_ids_error (d : PhaseList) (l : List Int) (e : XErr)
    (h : PhaseList.getItem d (.idList l) = .error e) :
    e = .keyError ∧ (l = [] ∨ ∃ k ∈ l, k ∉ PhaseList.ids d) :=
  PhaseList.getItem_idList_error l e h

/-- … and indexing by name(s) returns exactly the phases with those names, `KeyError` iff there is none -/
theorem getitem_exact_names (d r : PhaseList) (hs : (PhaseList.ids d).Pairwise (· < ·)) (l : List String)
    (h : PhaseList.getItem d (.nameList l) = .ok r) :
    (∀ e, e ∈ r ↔ e ∈ d ∧ e.2.name ∈ l) ∧ r.Sublist d ∧ (PhaseList.ids r).Pairwise (· < ·) ∧ r ≠ [] :=
  PhaseList.getItem_nameList_ok hs l h

theorem getitem_names_error (d : PhaseList) (l : List String) (e : XErr)
    (h : PhaseList.getItem d (.nameList l) = .error e) : e = .keyError ∧ ∀ f ∈ d, f.2.name ∉ l :=
  PhaseList.getItem_nameList_error l e h

/-! ### assignment through a selection changes exactly the selected points -/

/-- `xmap[...].phase_id = value`: points outside the selection keep their phase id, every other array, the
property dictionary and all selections are untouched; if the assignment raises nothing changed -/
theorem assignment_through_selection_frame (s : Sys) (v : Nat) (val : Value) :
    let s' := (step s (.setPhaseId v val)).1
    s'.props = s.props ∧ s'.views = s.views ∧ s'.grid = s.grid ∧
    (∀ m, s.views[v]? = some m → ∀ p, p ∉ ids s.n m → s'.phaseId p = s.phaseId p) ∧
    ((step s (.setPhaseId v val)).2 ≠ none → s' = s) := by
  intro s'
  cases hv : s.views[v]? with
  | none => simp [s', step, hv]
  | some m =>
    cases has : assign (ids s.n m) s.phaseId val with
    | error e => simp [s', step, hv, has]
    | ok pid' =>
      refine ⟨by simp [s', step, hv, has], by simp [s', step, hv, has], by simp [s', step, hv, has], ?_, ?_⟩
      · intro m' hm' p hp
        simp only [Option.some.injEq] at hm'
        subst hm'
        have : s'.phaseId = pid' := by simp [s', step, hv, has]
        rw [this]
        exact assign_frame has hp
      · simp [step, hv, has]

/-- a scalar value reaches every selected point -/
theorem assignment_scalar_selected (s : Sys) (v : Nat) (x : Int) (m : Mask) (hv : s.views[v]? = some m) :
    ∀ p ∈ ids s.n m, (step s (.setPhaseId v (.scalar x))).1.phaseId p = x := by
  intro p hp
  simp [step, hv, assign, hp]

/-- `xmap[...].prop[name] = value`: phase ids, phase list and selections untouched; the values of the named
property at points outside the selection are unchanged (0 for a property that did not exist), all other
properties are unchanged -/
theorem prop_assignment_frame (s : Sys) (v : Nat) (nm : String) (val : Value) :
    let s' := (step s (.setProp v nm val)).1
    s'.phases = s.phases ∧ s'.phaseId = s.phaseId ∧ s'.views = s.views ∧
    (∀ k a, k ≠ nm → (k, a) ∈ s.props → (k, a) ∈ s'.props) := by
  intro s'
  obtain ⟨h1, h2, _, h4⟩ := step_setProp_fields s v nm val
  refine ⟨h1, h2, h4, ?_⟩
  intro k a hk hmem
  cases hv : s.views[v]? with
  | none => simpa [s', step, hv] using hmem
  | some m =>
    have hmem0 : (k, a) ∈ (if (s.props.lookup nm).isSome then s.props
        else s.props ++ [(nm, match s.props.lookup nm with | some a => a | none => fun _ => 0)]) := by
      split
      · exact hmem
      · exact List.mem_append_left _ hmem
    simp only [s', step, hv]
    split
    · exact hmem0
    · refine List.mem_map.2 ⟨(k, a), hmem0, ?_⟩
      have : ((k, a).1 == nm) = false := by simpa using hk
      simp [this]

/-- … and the named property itself: after a successful assignment it holds the old array (zeros for a
property that did not exist) overwritten at the selected points only -/
theorem prop_assignment_values (s : Sys) (v : Nat) (nm : String) (val : Value) (m : Mask)
    (hv : s.views[v]? = some m) (a' : Nat → Int) (has : assign (ids s.n m) (propOld s.props nm) val = .ok a') :
    (step s (.setProp v nm val)).1.props.lookup nm = some a' ∧
      ∀ p, p ∉ ids s.n m → a' p = propOld s.props nm p :=
  setProp_result s v nm val m hv a' has

/-- a selection never touches its source: arrays, properties, phase list and all existing selections stay
as they are; the new selection (if the key is valid) is appended -/
theorem selection_leaves_source_unchanged (s : Sys) (v : Nat) (k : Key) :
    let s' := (step s (.select v k)).1
    s'.phases = s.phases ∧ s'.phaseId = s.phaseId ∧ s'.props = s.props ∧ s'.grid = s.grid ∧
      (s'.views = s.views ∨ ∃ m', s'.views = s.views ++ [m']) := by
  intro s'
  obtain ⟨h1, h2, h3, h4⟩ := step_select_fields s v k
  refine ⟨h1, h2, h4, h3, ?_⟩
  cases hv : s.views[v]? with
  | none => left; simp [s', step, hv]
  | some m =>
    cases hg : getItem s.base m k with
    | ok m' => right; exact ⟨m', by simp [s', step, hv, hg]⟩
    | error e => left; simp [s', step, hv, hg]

/-! ### non-vacuity -/

example : Inv (init ⟨2, 2⟩ (fun p => if p = 0 then -1 else 5) none [] (fun _ => true)) :=
  inv_init_none _ _ _ _ (by intro p _; by_cases h : p = 0 <;> simp [h])
example : (init ⟨2, 2⟩ (fun p => if p = 0 then -1 else 5) none [] (fun _ => true)).phases
    = [(-1, Phase.notIndexed), (5, Phase.dflt)] := by decide
example : admissibleAll witnessTwoUnnamed
    [.select 0 (.idx [.slice (some 1) none none]), .setPhaseId 1 (.scalar (-1)), .plAdd [⟨"c", none, 3⟩],
     .plDel (.id 2)] = true := by decide
example : (runOps witnessTwoUnnamed
    [.select 0 (.idx [.slice (some 1) none none]), .setPhaseId 1 (.scalar (-1)), .plAdd [⟨"c", none, 3⟩],
     .plDel (.id 2)]).phases = [(-1, Phase.notIndexed), (0, Phase.dflt), (1, Phase.dflt)] := by decide
example : PhaseList.ofKeywords (some ["a", "b", "c"]) none (some [some "432"]) (some [5, 1]) none
    = some [(1, ⟨"b", none, 0⟩), (5, ⟨"a", some "432", 0⟩), (6, ⟨"c", none, 0⟩)] := by decide
example : reconcile [2, 42] [(0, ⟨"p", none, 1⟩), (1, ⟨"q", none, 2⟩), (2, ⟨"r", none, 3⟩)]
    = [(2, ⟨"p", none, 1⟩), (42, ⟨"r", none, 3⟩)] := by decide

end Orix.C12
