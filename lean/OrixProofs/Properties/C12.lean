import OrixModel.XMap
namespace Orix.C12
end Orix.C12
