import OrixProofs.Lemmas.XMapSel
import OrixProofs.Lemmas.XMapCoord
import OrixProofs.Lemmas.XMapInv
/-
C11 — crystal-map selections compose like intersections; per-point data stays aligned.

Model: `OrixModel/XMap.lean` (`getItem` mirrors `CrystalMap.__getitem__` on the mask `is_in_data`).
Specification: a map *is* the ascending list `S` of its original point ids; `specSelect b S key` filters `S`.
All statements hold for every grid, every mask, every key and every finite history (no bounds).
Only property theorems and non-vacuity examples live in this file.
-/
namespace Orix.C11
open Orix Orix.XMap

/-- **Refinement.** Indexing a map with any key gives exactly the points the set-semantics
specification selects from the ids of that map — including the cases where the code raises. -/
theorem refinement (b : Base) (m : Mask) (k : Key) :
    (getItem b m k).map (ids b.grid.size) = specSelect b (ids b.grid.size m) k := by
  cases k with
  | idx ks => exact getIdx_refines b m ks
  | mask key => exact getMask_refines b m key
  | names ks =>
    simp only [getItem, specSelect, Except.map]
    congr 1
    exact getNames_refines b m ks

/-- **Refinement of whole histories** (induction over the key list): a chain of selections, each applied to
the result of the previous one, yields the ids the specification computes by filtering step by step. -/
theorem history (b : Base) (m : Mask) (ks : List Key) :
    (run b m ks).map (ids b.grid.size) = specRun b (ids b.grid.size m) ks := by
  induction ks generalizing m with
  | nil => rfl
  | cons k ks ih =>
    have hr := refinement b m k
    unfold run specRun
    cases hg : getItem b m k with
    | error e =>
      rw [hg] at hr
      simp only [Except.map] at hr
      simp only [← hr, Except.map]
    | ok m' =>
      rw [hg] at hr
      simp only [Except.map] at hr
      simp only [← hr]
      exact ih m'

/-- The specification only ever filters: the selected points are a sub-list (same order) of the map
being indexed. -/
theorem select_subset (b : Base) (S T : List Nat) (k : Key) (h : specSelect b S k = .ok T) :
    T.Sublist S := by
  cases k with
  | idx ks =>
    simp only [specSelect] at h
    cases hds : dataSlices b.grid S with
    | error e => simp [hds] at h
    | ok ext =>
      cases hpk : pickAll ks ext with
      | error e => simp [hds, hpk] at h
      | ok picks =>
        simp only [hds, hpk, Except.ok.injEq] at h
        subst h
        exact List.filter_sublist
  | mask key =>
    simp only [specSelect] at h
    by_cases hlen : key.length = S.length
    · simp only [hlen, if_true, Except.ok.injEq] at h
      subst h
      exact selPos_sublist S key
    · simp only [hlen, if_false] at h
      match key, h with
      | [v], h =>
        simp only [Except.ok.injEq] at h
        subst h
        cases v <;> simp
  | names ks =>
    simp only [specSelect, Except.ok.injEq] at h
    subst h
    exact List.filter_sublist

/-- **Never a point absent from the map being indexed** (code-shaped model): every point of the result of
`__getitem__` is a point of the map that was indexed. -/
theorem getItem_subset (b : Base) (m m' : Mask) (k : Key) (h : getItem b m k = .ok m') :
    (ids b.grid.size m').Sublist (ids b.grid.size m) := by
  have hr := refinement b m k
  rw [h] at hr
  exact select_subset b _ _ k hr.symm

/-- … and the same along any history: the final map is contained in every intermediate one, in particular
in the source map. -/
theorem history_subset (b : Base) (m m' : Mask) (ks : List Key) (h : run b m ks = .ok m') :
    (ids b.grid.size m').Sublist (ids b.grid.size m) := by
  induction ks generalizing m with
  | nil => simp only [run, Except.ok.injEq] at h; subst h; exact List.Sublist.refl _
  | cons k ks ih =>
    unfold run at h
    cases hg : getItem b m k with
    | error e => simp [hg] at h
    | ok m1 =>
      simp only [hg] at h
      exact (ih m1 h).trans (getItem_subset b m m1 k hg)

/-- Selections compose like intersections: a point is in the result of a history exactly when the
specification keeps it at every step; in particular (two boolean masks) the second mask is applied to the
points the first one kept. -/
theorem mask_mask_compose (b : Base) (S : List Nat) (k1 k2 : List Bool) (h1 : k1.length = S.length)
    (h2 : k2.length = (selPos S k1).length) :
    specRun b S [.mask k1, .mask k2] = .ok (selPos (selPos S k1) k2) := by
  simp [specRun, specSelect, h1, h2, selPos]

/-- **Alignment.** Every per-point accessor of a map is the original full-size array read at the ids of
the map, position by position (`array[is_in_data]`): phase ids, properties, coordinates, rotations
(represented by their original point id) alike. -/
theorem aligned {β : Type} (n : Nat) (m : Mask) (arr : Nat → β) :
    maskFilter n m arr = (ids n m).map arr := maskFilter_eq n m arr

theorem aligned_get {β : Type} (n : Nat) (m : Mask) (arr : Nat → β) (j : Nat) (hj : j < (ids n m).length) :
    (maskFilter n m arr)[j]? = some (arr ((ids n m)[j])) := by
  rw [maskFilter_eq]; simp [hj]

/-- … in particular `x` and `y` (when they exist) are the coordinates of the original points. -/
theorem aligned_xy {α : Type} [Coord α] (q : Geom α) (g : Grid) (m : Mask) :
    (∀ l, xs q g m = some l → l = (ids g.size m).map (xOf q g)) ∧
    (∀ l, ys q g m = some l → l = (ids g.size m).map (yOf q g)) := by
  constructor
  · intro l h
    unfold xs at h
    by_cases hx : g.nx > 1
    · simp only [hx, if_true, Option.some.injEq] at h; rw [← h, maskFilter_eq]
    · simp [hx] at h
  · intro l h
    unfold ys at h
    by_cases hy : g.ny > 1
    · simp only [hy, if_true, Option.some.injEq] at h; rw [← h, maskFilter_eq]
    · simp [hy] at h

/-- `row` is the original row of each point minus the smallest row in the data (likewise `col`). -/
theorem rows_spec (g : Grid) (m : Mask) (rs : List Nat) (h : rows g m = .ok rs) :
    ∃ lo, (∃ p ∈ ids g.size m, p / g.nx = lo) ∧ (∀ p ∈ ids g.size m, lo ≤ p / g.nx) ∧
      rs = (ids g.size m).map fun p => p / g.nx - lo := by
  unfold rows at h
  by_cases hax : g.axes.isEmpty = true
  · simp [hax] at h
  · simp only [hax, Bool.false_eq_true, if_false] at h
    cases hmin : minOf ((ids g.size m).map (· / g.nx)) with
    | none => simp [hmin] at h
    | some lo =>
      simp only [hmin, Except.ok.injEq] at h
      obtain ⟨hm1, hm2⟩ := minOf_spec hmin
      obtain ⟨p, hp, he⟩ := List.mem_map.1 hm1
      refine ⟨lo, ⟨p, hp, he⟩, fun p hp => hm2 _ (List.mem_map_of_mem hp), ?_⟩
      rw [← h, List.map_map]; rfl

theorem cols_spec (g : Grid) (m : Mask) (cs : List Nat) (h : cols g m = .ok cs) :
    ∃ lo, (∃ p ∈ ids g.size m, p % g.nx = lo) ∧ (∀ p ∈ ids g.size m, lo ≤ p % g.nx) ∧
      cs = (ids g.size m).map fun p => p % g.nx - lo := by
  unfold cols at h
  by_cases hax : g.axes.isEmpty = true
  · simp [hax] at h
  · simp only [hax, Bool.false_eq_true, if_false] at h
    cases hmin : minOf ((ids g.size m).map (· % g.nx)) with
    | none => simp [hmin] at h
    | some lo =>
      simp only [hmin, Except.ok.injEq] at h
      obtain ⟨hm1, hm2⟩ := minOf_spec hmin
      obtain ⟨p, hp, he⟩ := List.mem_map.1 hm1
      refine ⟨lo, ⟨p, hp, he⟩, fun p hp => hm2 _ (List.mem_map_of_mem hp), ?_⟩
      rw [← h, List.map_map]; rfl

/-- **The shape is the bounding box.** On every existing axis the extent `[lo, hi)` used for `shape`,
for slicing and for `get_map_data` contains all points of the data and is attained at both ends. -/
theorem shape_is_bbox (g : Grid) (I : List Nat) (ext : List (Nat × Nat)) (h : dataSlices g I = .ok ext) :
    List.Forall₂ (fun (a : Axis) (e : Nat × Nat) =>
      (∀ p ∈ I, e.1 ≤ a.coord p ∧ a.coord p < e.2) ∧ (∃ p ∈ I, a.coord p = e.1) ∧
        (∃ p ∈ I, a.coord p + 1 = e.2)) g.axes ext ∧
    shape g I = .ok (ext.map fun e => e.2 - e.1) := by
  constructor
  · exact (mapM_ok h).imp fun {a e} hae => extent_ok (lo := e.1) (hi := e.2) hae
  · simp [shape, h, Except.map]

/-- the shape is undefined exactly for the empty map (on grids that have an axis) -/
theorem shape_error_iff_empty (g : Grid) (I : List Nat) (hax : g.axes ≠ []) :
    (∃ e, dataSlices g I = .error e) ↔ I = [] := by
  constructor
  · rintro ⟨e, h⟩
    by_contra hne
    have : ∀ axes : List Axis, ∃ r, axes.mapM (fun a => extent a I) = .ok r := by
      intro axes
      induction axes with
      | nil => exact ⟨[], rfl⟩
      | cons a axes ih =>
        obtain ⟨r, hr⟩ := ih
        obtain ⟨x, hx⟩ := extent_isOk_of_ne_nil (a := a) hne
        exact ⟨x :: r, by rw [List.mapM_cons, hx, hr]; rfl⟩
    obtain ⟨r, hr⟩ := this g.axes
    unfold dataSlices at h
    rw [hr] at h
    cases h
  · rintro rfl
    cases hg : g.axes with
    | nil => exact absurd hg hax
    | cons a axes =>
      refine ⟨.emptyReduction, ?_⟩
      simp [dataSlices, hg, List.mapM_cons, extent, minOf, maxOf, bind, Except.bind]

/-- **Placement.** `get_map_data` returns one value per position of the bounding box, row-major; the
position `(i, j)` holds the value of the original point `(y0 + i, x0 + j)` if that point is in the data
and the fill value (`none`) otherwise. -/
theorem mapData_placement {β : Type} (g : Grid) (m : Mask) (arr : Nat → β) (out : List (Option β))
    (h : mapData g m arr = .ok out) :
    ∃ y0 y1 x0 x1, spanY g (ids g.size m) = .ok (y0, y1) ∧ spanX g (ids g.size m) = .ok (x0, x1) ∧
      out.length = (y1 - y0) * (x1 - x0) ∧
      ∀ i j, i < y1 - y0 → j < x1 - x0 →
        out[i * (x1 - x0) + j]? =
          some (if m ((y0 + i) * g.nx + (x0 + j)) then some (arr ((y0 + i) * g.nx + (x0 + j))) else none) :=
  mapData_spec h

/-- … so every point of the data finds its own value at its (row, col) relative to the bounding box. -/
theorem mapData_value_at_row_col {β : Type} (g : Grid) (m : Mask) (arr : Nat → β) (out : List (Option β))
    (h : mapData g m arr = .ok out) (hnx : 1 ≤ g.nx) (p : Nat) (hp : p ∈ ids g.size m) :
    ∃ y0 y1 x0 x1, spanY g (ids g.size m) = .ok (y0, y1) ∧ spanX g (ids g.size m) = .ok (x0, x1) ∧
      out[(p / g.nx - y0) * (x1 - x0) + (p % g.nx - x0)]? = some (some (arr p)) :=
  mapData_at_point h hnx hp

/-- **The source map stays unchanged.** In the state of a map together with all selections made from it
(`Sys`), taking a selection changes no array, no property, not the phase list and none of the existing
maps (in particular not the one being indexed); it only adds the new map. -/
theorem source_unchanged (s : Sys) (v : Nat) (k : Key) :
    (step s (.select v k)).1.phaseId = s.phaseId ∧ (step s (.select v k)).1.props = s.props ∧
    (step s (.select v k)).1.phases = s.phases ∧ (step s (.select v k)).1.grid = s.grid ∧
    ∀ (j : Nat) (m : Mask), s.views[j]? = some m → (step s (.select v k)).1.views[j]? = some m := by
  obtain ⟨h1, h2, h3, h4⟩ := step_select_fields s v k
  refine ⟨h2, h4, h1, h3, ?_⟩
  intro j m hj
  cases hv : s.views[v]? with
  | none => simpa [step, hv] using hj
  | some m0 =>
    cases hg : getItem s.base m0 k with
    | error e => simpa [step, hv, hg] using hj
    | ok m' =>
      simp only [step, hv, hg]
      have hlt : j < s.views.length := by
        by_contra hcon
        rw [List.getElem?_eq_none (by omega)] at hj
        cases hj
      rw [List.getElem?_append_left hlt]
      exact hj

/-- **Origin and step invariance.** Over exact arithmetic (any origin `oy, ox`, any positive steps
`dy, dx` in ℝ) the extents the code computes from coordinates — `round((c - origin)/step)` with the origin
and step recovered from the coordinate arrays themselves — are the index-level extents, for every set of
points of the grid … -/
theorem origin_step_invariance_slices (q : Geom ℝ) (g : Grid) (I : List Nat) (hdy : 0 < q.dy) (hdx : 0 < q.dx)
    (hny : 1 ≤ g.ny) (hnx : 1 ≤ g.nx) :
    dataSlicesCN q g I = dataSlices g I :=
  dataSlicesCN_eq q g I hdy hdx hny hnx

/-- … hence `__getitem__` computed from coordinates is `__getitem__` computed from indices: the result of
any selection does not depend on the origin or on the step sizes. -/
theorem origin_step_invariance (q : Geom ℝ) (b : Base) (m : Mask) (k : Key) (hdy : 0 < q.dy) (hdx : 0 < q.dx)
    (hny : 1 ≤ b.grid.ny) (hnx : 1 ≤ b.grid.nx) :
    getItemC q b m k = getItem b m k := by
  cases k with
  | idx ks =>
    simp only [getItemC, getItem, getIdx, getIdxWith]
    rw [dataSlicesCN_eq q b.grid _ hdy hdx hny hnx]
  | mask key => rfl
  | names ks => rfl

/-! ### the defect repaired by `fix:` commit 20c9772, pinned: assigning the slice mask instead of
and-ing it resurrects masked-out points -/

/-- proved counter-example: on a 1×4 map with point 1 masked out, `[0:3]` brings point 1 back -/
theorem old_getitem_resurrects :
    (getIdxOld ⟨1, 4⟩ (fun p => p != 1) [.slice (some 0) (some 3) none]).map (ids 4) = .ok [0, 1, 2] ∧
    (getIdx ⟨1, 4⟩ (fun p => p != 1) [.slice (some 0) (some 3) none]).map (ids 4) = .ok [0, 2] := by
  constructor <;> decide

/-! ### non-vacuity: the hypotheses are met and the statements say something on concrete maps -/

example : (getItem ⟨⟨3, 4⟩, fun _ => 0, []⟩ (fun p => p != 5 && p != 6)
    (.idx [.slice (some 1) (some 3) none, .slice (some 1) (some 3) none])).map (ids 12) = .ok [9, 10] := by
  decide
example : specRun ⟨⟨3, 4⟩, fun _ => 0, []⟩ (List.range 12)
    [.mask [true, true, true, true, true, false, false, true, true, true, true, true],
     .idx [.slice (some 1) (some 3) none, .slice (some 1) (some 3) none]] = .ok [9, 10] := by
  decide
example : shape ⟨3, 4⟩ [9, 10] = .ok [1, 2] := by decide
example : mapData ⟨3, 4⟩ (fun p => p == 4 || p == 9) (fun p => p) = .ok [some 4, none, none, some 9] := by
  decide
example : dataSlices ⟨1, 1⟩ [0] = .ok [] := by decide
-- the single-point grid (finding C11-single-point-grid): 0-dimensional, every int/slice key and row/col/
-- get_map_data fail in the model exactly as in the code
example : rows ⟨1, 1⟩ (fun _ => true) = .error .degenerate := by decide
example : (mapData ⟨1, 1⟩ (fun _ => true) (fun p => p)) = .error .degenerate := by decide
example : (getItem ⟨⟨1, 1⟩, fun _ => 0, []⟩ (fun _ => true) (.idx [.int 0])).map (ids 1)
    = .error .tooManyIndices := by decide
-- an empty selection has no shape, and slicing it raises (as `np.min` of an empty array does)
example : shape ⟨3, 4⟩ [] = .error .emptyReduction := by decide
example : PySlice.indices 5 none none (some (-2)) = some [4, 2, 0] := by decide
example : PySlice.indices 5 (some (-2)) none none = some [3, 4] := by decide
example : PySlice.indices 5 (some 1) (some 100) (some 0) = none := by decide

/-! ### floating-point robustness of the index recovery -/

/-- FLOATING-POINT ROBUSTNESS of the index recovery: whatever value `x̃` an inexact evaluation of `(c − origin)/step`
produces, if it is within 1/2 of the exact integer index `k` then rounding recovers `k`.  (The exact-arithmetic theorems
show the exact quotient IS `k`; IEEE double evaluation of `(o + k·d − o)/d` is within a few ulps of `k`, measured by the
correspondence check; this lemma closes the gap between "within a few ulps" and "the same index".) -/
theorem round_recovers_index (k : ℤ) (x : ℝ) (h : |x - (k : ℝ)| < 1 / 2) : round x = k := by
  have hx : x = (k : ℝ) + (x - k) := by ring
  rw [hx, round_intCast_add]
  have h0 : round (x - (k : ℝ)) = 0 := by
    rw [round_eq_zero_iff]
    rw [abs_lt] at h
    constructor <;> linarith [h.1, h.2]
  rw [h0, add_zero]

/-- the same for the `Coord ℝ` instance the model is evaluated with -/
theorem rnd_recovers_index (k : ℤ) (x : ℝ) (h : |x - (k : ℝ)| < 1 / 2) : XMap.Coord.rnd x = k :=
  round_recovers_index k x h

example : round ((7 : ℝ) + 3 / 10) = 7 := by
  have := round_recovers_index 7 ((7 : ℝ) + 3 / 10) (by norm_num [abs_lt])
  simpa using this


end Orix.C11
