import OrixModel.XMap
namespace Orix.C11
end Orix.C11
