import OrixProofs.Lemmas.CodecAngVendorsMain
import OrixProofs.Lemmas.CodecCtf
import OrixProofs.Lemmas.CodecBruker
import OrixModel.Codec.Emsoft
set_option linter.unusedVariables false
/-
C15 — vendor file readers decode every field of the formats they support.

These are theorems about *format models*: for each vendor variant a format description
`encodeᵥ : map → file record` (column order, header fields, angular unit, not-indexed convention, region-of-
interest ordering; `OrixModel/Codec/{AngVendors,Ctf,Bruker,Emsoft}.lean`) and the code-shaped reader model
`decodeᵥ` instantiated with the column / footprint / alias / Laue-class / property tables **generated from the
source on every run** (`OrixGen.IoTables`).  `decodeᵥ (encodeᵥ m) = some m` says the format description is
unambiguous and the reader inverts it: right column ↦ right field, units, phase-id conventions.  The link to
orix is the correspondence check (harness/props/c15.py): `encodeᵥ m` is rendered to a real file and loaded.
-/
namespace Orix.C15
open Orix.Codec Orix.Codec.Ang Orix.Gen.Io

/-- **.ang, EDAX TSL (10 and 14 columns), EMsoft, ASTAR**: for every map `m` well-formed for the variant
(`VendorWF`: its property names are the variant's, phases sorted by id with one header block each whose
symmetry spelling resolves to the phase's point group, phase ids in the data = phases in the header,
TSL: not indexed ⇔ confidence index -1) and every choice of the file-only content `x`, the reader returns
exactly `m`, without warning. -/
theorem ang_decode_encode (f : AngFmt) (x : AngExtras) (m : PMap) (ni : Bool) (hwf : VendorWF f x m ni) :
    readAng angReader 100000 (encodeAng f x m) = some (false, m) :=
  ang_vendor_main f x m ni hwf

/-- **.ang, orix variant**: this is C14's `ang_roundtrip_partial` (the orix writer is the format description). -/
theorem ang_orix_decode_encode (o : AngOpts) (m : GridIn) (f : AngFile) (hwf : AngWF o m)
    (hw : writeAng angWriter o m = some f) :
    ∃ cols, resolveProps angWriter o m = some cols ∧
      readAng angReader 100000 f = some (false, quantise properSubgroup o m cols) :=
  roundtrip_main o m f hwf hw

/-- **Column tables** (T-gen obligation, kernel-decided on the generated tables): for each vendor the reader's
table has a row with exactly the documented names in the documented order. -/
theorem ang_column_tables (f : AngFmt) :
    columnsFor angReader (fmtVendor f) (fmtColumns f).length = some (fmtVendor f, fmtColumns f, false) :=
  columns_table f

/-- **Unexpected number of columns** (no silent mis-assignment): for TSL, EMsoft and ASTAR files and every
column count below 40 that the reader's table does not list for the vendor, the columns are named
`euler1, euler2, euler3, x, y, unknown1, unknown2, phase_id, unknown3, …` and the warning flag is set. -/
theorem unexpected_columns :
    ([Vendor.tsl, Vendor.emsoft, Vendor.astar].all fun v => (List.range 40).all fun n =>
      (match lookupV v angReader.columns with
        | some variants => (variants.map List.length).contains n
        | none => true) ||
      (columnsFor angReader v n == some (Vendor.unknown,
        [S "euler1", S "euler2", S "euler3", S "x", S "y", S "unknown1", S "unknown2", S "phase_id"]
          ++ (List.range (n - 8)).map unknownName, true))) = true :=
  unexpected_columns_small

/-- a point of a row read with *any* table of distinct names comes back field by field (used for every
text format): in particular two swapped names in a table swap two fields — nothing else can happen -/
theorem row_roundtrip (names props : List Str) (p : Pt)
    (hs : ∀ s ∈ specialNames, s ∈ names) (hp : ∀ k ∈ props, k ∈ names ∧ k ∉ specialNames)
    (hn : props.Nodup) (hl : props.length = p.vals.length) :
    rowToPt names props (names.map (field props p)) = some p :=
  rowToPt_field names props p hs hp hn hl

/-! ### .ctf -/
section Ctf
open Orix.Codec.Ctf

/-- **.ctf, Oxford AZtec / Bruker Esprit, EMsoft, MTEX**: for every map well-formed for the variant (`CtfWF`:
property names of the variant — EMsoft's `DP, OSM, IQ` —, Euler angles in degrees, phases numbered 1 … n as the
`Phases` block lists them with Laue class / space group accepted by `Phase`, phase 0 never used for an indexed
point) the reader returns exactly `m`: right column ↦ right field, degrees, phase 0 ↦ not indexed. -/
theorem ctf_decode_encode (fmt : CtfFmt) (hfmt : fmt ≠ .astar) (x : CtfExtras) (m : PMap) (ni : Bool)
    (hwf : CtfWF fmt x m ni) : readCtf ctfTables (encodeCtf fmt x m) = some m :=
  ctf_main fmt hfmt x m ni hwf

/-- **.ctf, NanoMegas ASTAR**: the file's coordinate columns are rounded; the reader replaces them by the
header grid (`XStep`, `YStep`, `XCells`, `YCells`) and returns the map with exactly those coordinates. -/
theorem ctf_astar_decode_encode (x : CtfExtras) (m : PMap) (ni : Bool) (hwf : AstarWF x m ni) :
    readCtf ctfTables (encodeCtf .astar x m) = some m :=
  ctf_astar_main x m ni hwf

/-- T-gen obligations for the .ctf reader: column order, EMsoft renaming, degrees, not-indexed id, unit. -/
theorem ctf_tables :
    ctfTables.columns = Ctf.fmtColumns ∧
    ((Ctf.fmtColumns.filter fun n => !ctfTables.dataKeys.contains n).map (propNameOf ctfTables (S "emsoft"))
      = Ctf.fmtProps .emsoft) ∧
    ((Ctf.fmtColumns.filter fun n => !ctfTables.dataKeys.contains n).map (propNameOf ctfTables (S "oxford_or_bruker"))
      = Ctf.fmtProps .oxford) ∧
    ctfTables.degrees = true ∧ ctfTables.notIndexedId = 0 ∧ ctfTables.unit = S "um" ∧
    vendorOf ctfTables [] = S "oxford_or_bruker" ∧ vendorOf ctfTables [S "emsoft"] = S "emsoft" ∧
    vendorOf ctfTables [S "astar"] = S "astar" ∧ vendorOf ctfTables [S "mtex"] = S "mtex" := by
  decide +kernel

/-- every Laue-class number 1 … 11 is turned into a point group (since 35ab43a; kernel-decided on the generated
Laue table, alias table and group names) -/
theorem ctf_laue_classes :
    ((List.range' 1 11).filter fun (l : Nat) =>
      (phaseOf ctfTables 1 ⟨[], [], (l : Int), 0⟩).isNone) = [] := by
  decide +kernel

/-- the reader's tables before the fix: Laue class 10 spelled `m3` -/
def ctfTablesPreFix : CtfTables :=
  { ctfTables with laueIds := ctfTables.laueIds.map fun s => if s = S "m-3" then S "m3" else s }

/-- pre-fix: class 10 (`m3`) is no point-group name — exactly that class could not be read -/
theorem ctf_laue_classes_prefix :
    ((List.range' 1 11).filter fun (l : Nat) =>
      (phaseOf ctfTablesPreFix 1 ⟨[], [], (l : Int), 0⟩).isNone) = [10] := by
  decide +kernel

/-- a 2×2 single-phase Oxford map with the given Laue class and space group -/
def ctfMap (pg : Str) (sg : Option Nat) : PMap :=
  { propNames := Ctf.fmtProps .oxford,
    pts := [⟨0, 0, 1, ⟨100000, 200000, 300000⟩, [1, 2, 3, 4, 5]⟩, ⟨10000, 0, 1, ⟨110000, 210000, 310000⟩, [6, 7, 8, 9, 10]⟩,
            ⟨0, 10000, 1, ⟨120000, 220000, 320000⟩, [11, 12, 13, 14, 15]⟩,
            ⟨10000, 10000, 1, ⟨130000, 230000, 330000⟩, [16, 17, 18, 19, 20]⟩],
    phases := [{ id := 1, name := S "Iron fcc", pg := some pg, sg := sg, lattice := [3660, 3660, 3660, 90000, 90000, 90000], atoms := [] }],
    unit := S "um", degrees := true }

def ctfX (laue sg : Int) : CtfExtras := ⟨[laue], [sg], 2, 2, 10000, 10000, [], []⟩

/-- non-vacuity: an ordinary Oxford file (Laue class 11, space group 225) is read back exactly -/
example : readCtf ctfTables (encodeCtf .oxford (ctfX 11 225) (ctfMap (S "m-3m") (some 225)))
    = some (ctfMap (S "m-3m") (some 225)) := by decide +kernel

/-- Laue class 10 (m-3, e.g. pyrite, space group 205) is read (since 35ab43a); with the pre-fix table it
could not be -/
theorem ctf_laue_10 :
    readCtf ctfTables (encodeCtf .oxford (ctfX 10 205) (ctfMap (S "m-3") (some 205)))
      = some (ctfMap (S "m-3") (some 205)) ∧
    readCtf ctfTablesPreFix (encodeCtf .oxford (ctfX 10 205) (ctfMap (S "m-3") (some 205))) = none := by
  decide +kernel

/-- **Counter-example (finding)**: a non-centrosymmetric space group (216, F-43m) with its Laue class 11:
the phase comes back without space group. -/
theorem ctf_space_group_counterexample :
    (readCtf ctfTables (encodeCtf .oxford (ctfX 11 216) (ctfMap (S "m-3m") (some 216)))).map
      (fun m => m.phases.map fun p => (p.pg, p.sg)) = some [(some (S "m-3m"), none)] := by
  decide +kernel

end Ctf

/-! ### Bruker h5ebsd -/
section Bruker
open Orix.Codec.Bruker

def sameAttrs (a b : List Str) : Bool := a.all (b.contains ·) && b.all (a.contains ·)

/-- T-gen obligations for the Bruker reader: dataset ↦ property table, Euler datasets, degrees, phase 0,
which arrays `final_preparations` re-orders and reverses. -/
theorem bruker_tables :
    brukerTables.props = Bruker.fmtProps ∧ brukerTables.eulerDatasets = [S "phi1", S "PHI", S "phi2"] ∧
    brukerTables.degrees = true ∧ brukerTables.notIndexedId = 0 ∧ brukerTables.unit = S "um" ∧
    brukerTables.yProp = S "YSAMPLE" ∧ brukerTables.xProp = S "XSAMPLE" ∧
    brukerTables.reversedAttrs = [S "x"] ∧ brukerTables.sortsProps = true ∧
    sameAttrs brukerTables.sortedAttrs [S "x", S "y", S "phase_id", S "rotations"] = true := by
  decide +kernel

/-
Full statement for Bruker files:  decode brukerTables (encode x m) = some m  for every map `m` on a full
rectangular grid and every acquisition order `x.perm` that keeps each row's points together (for the code as
it was before 583ef6c; for every permutation since y is re-ordered too).  UNPROVED in this generality (the bookkeeping of
min/max of `IY`, `IX` and of the thirteen property columns is not done); proved: the combinatorial core
`bruker_roi_sorted_back` for all arrays and all permutations, the table obligations, and kernel-checked
instances including the counter-example.  The correspondence check exercises the full statement.
-/

/-- **Region-of-interest ordering is a permutation that is sorted back**: if the file stores at position `k`
the map point `perm[k]` (`perm` any permutation of `0 … n-1`, so that `IY*ncols+IX` at position `k` is
`perm[k]`), then `stored[argsort(IY*ncols+IX)]` is the array in map order — for *every* array `a` (coordinates,
phase ids, Euler angles, each property). -/
theorem bruker_roi_sorted_back {α} (a stored : List α) (perm : List Nat)
    (hp : perm.Perm (List.range a.length)) (hst : perm.mapM (a[·]?) = some stored) :
    Bruker.take stored (argsort (perm.map Int.ofNat)) = some a :=
  take_argsort a stored perm hp hst

/-- a 2×2 map (row-major) as a Bruker file stores it: XSAMPLE mirrored, YSAMPLE = y -/
def bMap : PMap :=
  { propNames := Bruker.fmtProps.map (·.1),
    pts := [⟨0, 0, 1, ⟨10, 20, 30⟩, [1, 2, 3, 4, 5, 6, 7, 8, 9, 10, 500, 0, 13]⟩,
            ⟨500, 0, 1, ⟨11, 21, 31⟩, [21, 22, 23, 24, 25, 26, 27, 28, 29, 30, 0, 0, 33]⟩,
            ⟨0, 500, 1, ⟨12, 22, 32⟩, [41, 42, 43, 44, 45, 46, 47, 48, 49, 50, 500, 500, 53]⟩,
            ⟨500, 500, 1, ⟨13, 23, 33⟩, [61, 62, 63, 64, 65, 66, 67, 68, 69, 70, 0, 500, 73]⟩],
    phases := [{ id := 1, name := S "a", pg := some (S "m-3m"), sg := some 225, lattice := [1, 1, 1, 90, 90, 90], atoms := [] }],
    unit := S "um", degrees := true }

def bX (perm : List Nat) : BrukerExtras := ⟨true, perm, 2, 2, 5, 7, 0, 0, [[]], [225]⟩

/-- non-vacuity: stored row by row, or with the points of each row in another order, the map is read back -/
example : decode brukerTables (encode (bX [0, 1, 2, 3]) bMap) = some bMap := by decide +kernel
example : decode brukerTables (encode (bX [1, 0, 3, 2]) bMap) = some bMap := by decide +kernel

/-- an acquisition order that permutes *rows* (second row first) is sorted back too (since 583ef6c the y
coordinates are re-ordered like every other array) … -/
example : decode brukerTables (encode (bX [2, 3, 0, 1]) bMap) = some bMap ∧
    decode brukerTables (encode (bX [3, 0, 2, 1]) bMap) = some bMap := by decide +kernel

/-- the reader's tables before the fix: `final_preparations` did not re-order `y` -/
def brukerTablesPreFix : BrukerTables :=
  { brukerTables with sortedAttrs := brukerTables.sortedAttrs.filter (· != S "y") }

/-- … whereas the pre-fix reader left the y coordinates in file order -/
theorem bruker_y_prefix_counterexample :
    (decode brukerTablesPreFix (encode (bX [2, 3, 0, 1]) bMap)).map (fun m => m.pts.map fun p => (p.x, p.y))
      = some [(0, 500), (500, 500), (0, 0), (500, 0)] ∧
    bMap.pts.map (fun p => (p.x, p.y)) = [(0, 0), (500, 0), (0, 500), (500, 500)] := by
  decide +kernel

end Bruker

/-! ### EMsoft h5ebsd -/
section Emsoft
open Orix.Codec.Emsoft

/-
Full statement for EMsoft files:  decode emsoftTables x.refined (encode x m) = some m  for every map with `k`
rotations / values per point.  UNPROVED (chunking of `(n, k)` datasets and the transposition of property
columns are not reasoned about); proved: table obligations and the header regular expressions on the
documented strings; the correspondence check exercises the full statement (dictionary and refined variants).
-/

/-- T-gen obligations for the EMsoft reader: property list, dictionary angles in degrees and 1-based
indices, refined angles in radians. -/
theorem emsoft_tables :
    emsoftTables.props = [S "AvDotProductMap", S "CI", S "IQ", S "ISM", S "KAM", S "OSM", S "RefinedDotProducts",
                          S "TopDotProductList", S "TopMatchIndices"] ∧
    emsoftTables.dictDegrees = true ∧ emsoftTables.refinedDegrees = false ∧ emsoftTables.indexBase = 1 ∧
    emsoftTables.unit = S "um" := by
  decide +kernel

/-- the header regular expressions: first word of `MaterialName`, bracketed point group (with backtracking:
the class `A-z` contains `]`) -/
theorem emsoft_header_regex :
    firstWord (S "fe4al13/fe4al13") = some (S "fe4al13") ∧
    bracketed (S "Monoclinic b (C2h) [2/m]") = some (S "2/m") ∧
    bracketed (S "Cubic (Oh) [m-3m]") = some (S "m-3m") := by
  decide +kernel

end Emsoft

end Orix.C15
