import OrixModel.Codec.AngVendors
import OrixGen.IoTables
/- C15 — placeholder while the models are validated against the implementation -/
namespace Orix.C15
end Orix.C15
