import OrixProofs.Lemmas.CodecAngMain
set_option linter.unusedVariables false
/-
C14 — .ang export/import preserves the map up to the format's precision.

These are theorems about the *format model* (`OrixModel/Codec/Ang.lean`): `writeAng` mirrors
`orix.io.plugins.ang.file_writer`, `readAng` mirrors `file_reader` followed by `CrystalMap.__init__`, both
instantiated with the column / footprint / alias / sentinel tables **generated from the source on every run**
(`OrixGen.IoTables`: `angReader`, `angWriter`, `properSubgroup`).  Numbers are integers in units of 1e-5 (what
`%.5f` prints); numpy's text formatting/parsing is outside the theorems.  The link to orix is the
correspondence check (harness/props/c14.py), which compares the written file and the loaded map with the model.

`quantise` is the specification: grid coordinates of the map's shape and steps, indexed pattern (masked ⇒ not
indexed), the written Euler triplet / chosen property values of indexed points, documented sentinels for the
others, phases renumbered 1..n in list order with name, lattice constants and proper point group.
-/
namespace Orix.C14
open Orix.Codec Orix.Codec.Ang Orix.Gen.Io

/-
Full statement (for *all* maps and writer options on which the writer does not raise):
    readAng (writeAng o m) = quantise o m.
It does **not** hold for the code as it is: see the proved counter-examples below (phases without points,
ci = -1).  Proved: the statement under the explicit predicate `AngWF`, whose conjuncts are exactly these
exclusions plus naming hygiene (whitespace-normalised phase names, plain extra column names).
Multi-word phase names and 1-D maps along y are covered since the fixes fb90b43 and 8c013c0; the pre-fix
behaviour is kept as theorems about `hdrFormulasPreFix` and `coordsPreFix`.
-/

/-- **Round trip** for every map `m` (any shape, masks, phases, rotations per point, properties) and every
combination of writer keywords `o` satisfying `AngWF`: reading what the writer wrote gives, without warning,
exactly the specified map. -/
theorem ang_roundtrip_partial (o : AngOpts) (m : GridIn) (f : AngFile) (hwf : AngWF o m)
    (hw : writeAng angWriter o m = some f) :
    ∃ cols, resolveProps angWriter o m = some cols ∧
      readAng angReader 100000 f = some (false, quantise properSubgroup o m cols) :=
  roundtrip_main o m f hwf hw

/-- **Renumbering 1..n in list order**: the phases that come back carry the ids `1, 2, …, n`. -/
theorem renumbering_ids (pl : List PhaseInfo) :
    (quantPhases properSubgroup 1 pl).map (·.id) = (List.range' 1 pl.length).map (fun i => (i : Int)) := by
  suffices h : ∀ k, (quantPhases properSubgroup k pl).map (·.id)
      = (List.range' k pl.length).map (fun i => (i : Int)) from h 1
  induction pl with
  | nil => intro k; rfl
  | cons p r ih => intro k; simp [quantPhases, quantPhase, List.range'_succ, ih (k + 1)]

/-- **Renumbering is a bijection** between the phases of the list and `1..n`: two indexed points of phases
in the list get the same new id iff they had the same phase id (phase ids in a phase list are distinct). -/
theorem renumbering_bijective (o : AngOpts) (m : GridIn) (cols : PropCols) (pl : List PhaseInfo)
    (j₁ j₂ : Nat) (p₁ p₂ : InPt) (h₁ : isIndexed p₁ = true) (h₂ : isIndexed p₂ = true)
    (k₁ : (pl.findIdx? (·.id == p₁.phaseId)).isSome = true)
    (k₂ : (pl.findIdx? (·.id == p₂.phaseId)).isSome = true) :
    (quantPt o m cols pl j₁ p₁).phaseId = (quantPt o m cols pl j₂ p₂).phaseId ↔ p₁.phaseId = p₂.phaseId := by
  rw [quantPt_phaseId, quantPt_phaseId]
  simp only [h₁, h₂, if_true]
  cases f₁ : pl.findIdx? (·.id == p₁.phaseId) with
  | none => simp [f₁] at k₁
  | some i₁ =>
    cases f₂ : pl.findIdx? (·.id == p₂.phaseId) with
    | none => simp [f₂] at k₂
    | some i₂ =>
      obtain ⟨l₁, e₁, _⟩ := List.findIdx?_eq_some_iff_getElem.1 f₁
      obtain ⟨l₂, e₂, _⟩ := List.findIdx?_eq_some_iff_getElem.1 f₂
      simp only [beq_iff_eq] at e₁ e₂
      constructor
      · intro h
        have : i₁ = i₂ := by
          have h' : (i₁ : Int) + 1 = (i₂ : Int) + 1 := h
          omega
        subst this
        rw [← e₁, ← e₂]
      · intro h
        rw [h] at f₁
        rw [f₁] at f₂
        cases f₂
        rfl

/-- **Sentinels are exact**: a point that is masked out or not indexed is written with Euler angles 4π
(12.56637), image quality 0, confidence index -1, detector signal 0, pattern fit 180, extra columns 0 and
phase id 0 (multi-phase) or -1 (single phase) — the documented values, from the constants read out of the
writer's source. -/
theorem sentinels_exact (o : AngOpts) (m : GridIn) (cols : PropCols) (pl : List PhaseInfo) (j : Nat) (p : InPt)
    (r : OutRow) (hpl : ∀ q ∈ pl, q.id ≠ -1) (hp : isIndexed p = false)
    (h : outRow angWriter o m cols pl j p = some r) :
    r.eu = ⟨1256637, 1256637, 1256637⟩ ∧ r.iq = 0 ∧ r.ci = -100000 ∧ r.ds = 0 ∧ r.fit = 18000000 ∧
      r.extras = cols.extras.map (fun _ => 0) ∧
      r.phase = if pl.length > 1 then 0 else -1 := by
  unfold outRow at h
  simp only [hp, Bool.false_eq_true, if_false, Option.some.injEq] at h
  subst h
  refine ⟨by simp [angWriter], by simp [angWriter], by simp [angWriter], by simp [angWriter],
    by simp [angWriter], by simp [angWriter], ?_⟩
  simp only [newPhaseId]
  by_cases hin : p.inData = true
  · have hni : p.phaseId = -1 := by
      simp only [isIndexed, hin, Bool.true_and, bne_eq_false_iff_eq] at hp
      exact hp
    simp only [hin, if_true]
    cases hf : pl.findIdx? (·.id == p.phaseId) with
    | none => rfl
    | some i =>
      obtain ⟨hl, e, _⟩ := List.findIdx?_eq_some_iff_getElem.1 hf
      simp only [beq_iff_eq, hni] at e
      exact absurd e (hpl _ (List.getElem_mem hl))
  · simp [hin]

/-- … and such a point is read back as not indexed with exactly those values (specification side). -/
theorem sentinels_read (o : AngOpts) (m : GridIn) (cols : PropCols) (pl : List PhaseInfo) (j : Nat) (p : InPt)
    (hp : isIndexed p = false) :
    (quantPt o m cols pl j p).phaseId = -1 ∧
    (quantPt o m cols pl j p).eu = ⟨1256637, 1256637, 1256637⟩ ∧
    (quantPt o m cols pl j p).vals = [0, -100000, 0, 18000000] ++ cols.extras.map (fun _ => 0) := by
  unfold quantPt
  simp [hp, specEulerSentinel, specSentinels, specScale]

/-- **Extra property columns come back under their given names**, after the four standard columns, and an
indexed point carries in column `4 + k` the value of the `k`-th extra property (`specVal`: the value of that
map property at the point, layer `index`). -/
theorem extra_props_named (o : AngOpts) (m : GridIn) (f : AngFile) (hwf : AngWF o m)
    (hw : writeAng angWriter o m = some f) :
    ∃ cols pm, resolveProps angWriter o m = some cols ∧ readAng angReader 100000 f = some (false, pm) ∧
      pm.propNames = [S "iq", S "ci", S "detector_signal", S "fit"] ++ (o.extra.getD []) ∧
      ∀ jp ∈ zipIdxFrom 0 m.pts, isIndexed jp.2 = true →
        (quantPt o m cols (phasesNoNI m.phases) jp.1 jp.2).vals.drop 4
          = cols.extras.map (specVal m o.index jp.2) := by
  obtain ⟨cols, hc, hr⟩ := roundtrip_main o m f hwf hw
  refine ⟨cols, _, hc, hr, rfl, ?_⟩
  intro jp _ hi
  unfold quantPt
  simp [hi]

/-- **The proper point group survives**: for every point group the library defines (and for a phase without
one) the header string is read back as the proper subgroup (kernel-checked on the generated tables). -/
theorem point_group_roundtrip (pg : Option Str) (h : ∀ g, pg = some g → g ∈ properSubgroup.map (·.1)) :
    ∃ s, symmetryOf angWriter pg = some s ∧
      resolvePG angReader.aliases angReader.groups s = some (quantPG pg) := by
  have := symOk_of_known pg h
  unfold symOk at this
  cases hs : symmetryOf angWriter pg with
  | none => simp [hs] at this
  | some s => exact ⟨s, rfl, by simpa [hs] using this⟩

/-! ### proved counter-examples (the conjuncts of `AngWF` are needed; each is a finding or a documented limit) -/

/-- a 2×2 single-phase map, phase name given as parameter -/
def mapNamed (name : Str) : GridIn :=
  { oneD := false, nrows := 2, ncols := 2, dy := 100000, dx := 100000, props := [],
    pts := List.replicate 4 { inData := true, phaseId := 0, rots := [⟨100000, 200000, 300000⟩], vals := [] },
    phases := [{ id := 0, name := name, pg := some (S "m-3m"), sg := none, lattice := [4000, 4000, 4000, 90000, 90000, 90000], atoms := [] }] }

def noOpts : AngOpts := ⟨none, none, none, none, none, none⟩

def roundTrip (o : AngOpts) (m : GridIn) : Option (Bool × PMap) :=
  (writeAng angWriter o m).bind (readAng angReader 100000)
def spec (o : AngOpts) (m : GridIn) : Option (Bool × PMap) :=
  (resolveProps angWriter o m).map fun cols => (false, quantise properSubgroup o m cols)

/-- non-vacuity: on an ordinary map the round trip is the specification … -/
example : roundTrip noOpts (mapNamed (S "austenite")) = spec noOpts (mapNamed (S "austenite")) := by
  decide +kernel
/-- … and the theorem's hypotheses are satisfiable -/
example : AngWF noOpts (mapNamed (S "austenite")) where
  names_normal := by decide +kernel
  pg_known := by decide +kernel
  extras_plain := by decide
  extras_fresh := by decide
  extras_nodup := by decide
  geometry := by decide
  ci_free := by
    intro cols h
    have : resolveProps angWriter noOpts (mapNamed (S "austenite")) = some ⟨none, none, none, none, []⟩ := by
      decide +kernel
    rw [this] at h
    cases h
    decide +kernel
  phases_known := by decide +kernel
  phases_used := by decide +kernel

/-- a multi-word phase name comes back whole (since fb90b43 the reader keeps all words of `Formula`) … -/
example : roundTrip noOpts (mapNamed (S "Iron Titanium Oxide")) = spec noOpts (mapNamed (S "Iron Titanium Oxide")) ∧
    ((roundTrip noOpts (mapNamed (S "Iron fcc"))).map fun r => r.2.phases.map (·.name)) = some [S "Iron fcc"] := by
  decide +kernel

/-- … whereas the pre-fix reader (`hdrFormulasPreFix`: last word of `Formula`, and formulas replace names)
made "fcc" of "Iron fcc" -/
theorem multiword_name_prefix_counterexample :
    (writeAng angWriter noOpts (mapNamed (S "Iron fcc"))).map (fun f => hdrFormulasPreFix f.header) = some [S "fcc"] ∧
    (writeAng angWriter noOpts (mapNamed (S "Iron fcc"))).map (fun f => hdrFormulas f.header) = some [S "Iron fcc"] := by
  decide +kernel

/-- a 1-D map of four points along y (`xmap.dx = 0`) -/
def columnMap : GridIn :=
  { mapNamed (S "a") with oneD := true, nrows := 1, ncols := 4, dy := 100000, dx := 0 }

/-- a column map is written as one column and comes back with its y coordinates (since 8c013c0) … -/
example : roundTrip noOpts columnMap = spec noOpts columnMap ∧
    ((roundTrip noOpts columnMap).map fun r => r.2.pts.map (·.y)) = some [0, 100000, 200000, 300000] := by
  decide +kernel

/-- … whereas the pre-fix writer (`coordsPreFix`: every 1-D map is one row with `dx = xmap.dx`) wrote all
coordinates zero -/
theorem column_map_prefix_counterexample :
    (List.range 4).map (coordsPreFix angWriter columnMap) = [(0, 0), (0, 0), (0, 0), (0, 0)] := by
  decide +kernel

/-- two phases in the list, all points of the first -/
def unusedPhaseMap : GridIn :=
  { mapNamed (S "a") with
    phases := (mapNamed (S "a")).phases ++
      [{ id := 1, name := S "b", pg := some (S "6/mmm"), sg := none, lattice := [3000, 3000, 5000, 90000, 90000, 120000], atoms := [] }] }

/-- **Counter-example**: a phase of the list without any point in the written data does not come back
(`CrystalMap.__init__` removes it). -/
theorem unused_phase_counterexample :
    ((roundTrip noOpts unusedPhaseMap).map fun r => r.2.phases.map (·.name)) = some [S "a"] ∧
    ((spec noOpts unusedPhaseMap).map fun r => r.2.phases.map (·.name)) = some [S "a", S "b"] := by
  decide +kernel

/-- a property `ci` with value -1 at the first (indexed) point -/
def ciMinusOneMap : GridIn :=
  { mapNamed (S "a") with
    props := [⟨S "ci", false⟩],
    pts := [{ inData := true, phaseId := 0, rots := [⟨100000, 200000, 300000⟩], vals := [[-100000]] },
            { inData := true, phaseId := 0, rots := [⟨100000, 200000, 300000⟩], vals := [[50000]] },
            { inData := true, phaseId := 0, rots := [⟨100000, 200000, 300000⟩], vals := [[50000]] },
            { inData := true, phaseId := 0, rots := [⟨100000, 200000, 300000⟩], vals := [[50000]] }] }

/-- **Counter-example (limit of the format)**: an indexed point whose confidence index is exactly -1 comes
back as not indexed — -1 is the format's not-indexed marker. -/
theorem ci_minus_one_counterexample :
    ((roundTrip noOpts ciMinusOneMap).map fun r => r.2.pts.map (·.phaseId)) = some [-1, 1, 1, 1] ∧
    ((spec noOpts ciMinusOneMap).map fun r => r.2.pts.map (·.phaseId)) = some [1, 1, 1, 1] := by
  decide +kernel

end Orix.C14
