#!/usr/bin/env python3
"""Run /repo's suite (guard off) and compare with the stable_pass list of BASELINE.json."""
import json, subprocess, sys, os, xml.etree.ElementTree as ET
out = sys.argv[1] if len(sys.argv) > 1 else "/tmp/baseline.junit.xml"
repo = sys.argv[2] if len(sys.argv) > 2 else "/repo"
cache = "/tmp/nbcache_baseline_" + str(os.getpid())
env = dict(os.environ, NUMBA_CACHE_DIR=cache, PYTHONPATH=repo)
env.pop("PYXEM_ORIX_VERIF", None)
sp = json.load(open("/root/.vp/BASELINE.json"))["stable_pass"]


def one_run():
    subprocess.run(["/venv/bin/python", "-m", "pytest", "-q", "-p", "no:cacheprovider", "--timeout=900",
                    "--continue-on-collection-errors", "-n", "8", f"--junitxml={out}"], cwd=repo, env=env,
                   stdout=subprocess.DEVNULL, stderr=subprocess.DEVNULL)
    res = {}
    for tc in ET.parse(out).getroot().iter("testcase"):
        name = f"{tc.get('classname')}::{tc.get('name')}"
        bad = any(c.tag in ("failure", "error") for c in tc)
        skipped = any(c.tag == "skipped" for c in tc)
        res[name] = "fail" if bad else ("skip" if skipped else "pass")
    return res


res = one_run()
notpass = [t for t in sp if res.get(t) != "pass"]
# the suite contains tests on unseeded random input (e.g. test_from_euler_to_matrix_from_matrix fails ~1 % of runs on
# the unchanged tree): a test only counts as not passing if it fails in two runs
if notpass and len(notpass) <= 10:
    res2 = one_run()
    notpass = [t for t in notpass if res2.get(t) != "pass"]
print(f"stable_pass={len(sp)} passing_now={len(sp) - len(notpass)}")
for t in notpass[:40]:
    print("  NOT PASSING:", t, res.get(t))
import shutil; shutil.rmtree(cache, ignore_errors=True)
sys.exit(1 if notpass else 0)
