#!/usr/bin/env python3
"""Validate a seeded change independently of /verif's Lean side: in a scratch worktree of /repo's HEAD
apply the patch, run the demo (must fail), run the suite against the BASELINE stable list (must pass),
remove the patch, run the demo again (must pass).  Usage: validate_seed.py <patch> <demo.py> [workdir]"""
import json, os, shutil, subprocess, sys, tempfile
patch, demo = os.path.abspath(sys.argv[1]), os.path.abspath(sys.argv[2])
wt = sys.argv[3] if len(sys.argv) > 3 else tempfile.mkdtemp(prefix="valseed_", dir="/tmp")
if os.path.exists(wt):
    shutil.rmtree(wt, ignore_errors=True)
subprocess.run(["git", "-C", "/repo", "worktree", "add", "-q", "--detach", wt, "HEAD"], check=True)
res = {"patch": patch, "demo": demo}
try:
    env = dict(os.environ, PYTHONPATH=wt, NUMBA_CACHE_DIR=os.path.join(wt, "_nb"))
    a = subprocess.run(["git", "-C", wt, "apply", patch], capture_output=True, text=True)
    res["applies"] = a.returncode == 0
    if a.returncode == 0:
        d1 = subprocess.run(["/venv/bin/python", demo], cwd=wt, env=env, capture_output=True, text=True, timeout=1800)
        res["demo_with_patch_exit"] = d1.returncode
        res["demo_with_patch_out"] = (d1.stdout + d1.stderr)[-600:]
        b = subprocess.run([sys.executable, os.path.join(os.path.dirname(__file__), "baseline_check.py"),
                            os.path.join(wt, "_junit.xml"), wt], capture_output=True, text=True, timeout=3600)
        res["suite_ok"] = b.returncode == 0
        res["suite_out"] = b.stdout[-500:]
        subprocess.run(["git", "-C", wt, "checkout", "--", "."], check=True)
        d2 = subprocess.run(["/venv/bin/python", demo], cwd=wt, env=env, capture_output=True, text=True, timeout=1800)
        res["demo_clean_exit"] = d2.returncode
    else:
        res["apply_err"] = a.stderr[-300:]
finally:
    subprocess.run(["git", "-C", "/repo", "worktree", "remove", "--force", wt])
    shutil.rmtree(wt, ignore_errors=True)
res["valid"] = bool(res.get("applies") and res.get("demo_with_patch_exit") not in (0, None) and res.get("suite_ok")
                    and res.get("demo_clean_exit") == 0)
print(json.dumps(res, indent=1))
sys.exit(0 if res["valid"] else 1)
