#!/bin/sh
# usage: seed_cycle_f.sh <Fxx>   file-targeted round: the sub-agent's notes name the properties each patch breaks
root=/tmp/seed7; id=$1
for k in 1 2; do
  props=$(grep -i "PROPERTIES:" $root/$id/_out/notes.md | sed -n "${k}p" | grep -o 'C[0-9][0-9]' | sort -u | tr '\n' ' ')
  [ -z "$props" ] && props="C16"
  echo "## $id patch$k -> $props" > $root/results/${id}_$k.log
  /verif/tools/seed_cycle.sh $root $id $k $props >> $root/results/${id}_$k.log 2>&1
done
