#!/venv/bin/python
"""Acceptance tests of the two-source I/O table extraction (harness/extract/tables_io.py + io_probe.py).

  1. unchanged tree: generate() == the AST-only text (today's extraction) == optional saved baseline
  2. behaviour-preserving refactorings (refactor8/9.diff): text byte-identical to the unchanged tree's
  3. real changes (seeded patch + hand edits, also on top of the refactorings): text differs

Only plain Python: every tree is a scratch `git worktree` of /repo (never /repo's working tree, no stash), the
extraction runs in a subprocess with VERIF_REPO/PYTHONPATH pointing at it; nothing under lean/ is written.
Usage: tools/test_tables_io.py [--keep] [--refactor-dir DIR]      exit 0 = all passed"""
import json
import os
import subprocess
import sys

VERIF = os.path.dirname(os.path.dirname(os.path.abspath(__file__)))
REPO = "/repo"
WT = f"/tmp/iot_wt_{os.getpid()}"
RDIR = "/tmp/seed3/R1/_out"
if "--refactor-dir" in sys.argv:
    RDIR = sys.argv[sys.argv.index("--refactor-dir") + 1]
PY = "/venv/bin/python"
SNIPPET = ("import json,sys\nfrom harness.extract import tables_io\n"
           "mode = sys.argv[1]\nt, s = tables_io.generate(execute=(mode == 'both'))\n"
           "json.dump({'text': t, 'status': s}, sys.stdout)\n")


def run(repo, mode="both"):
    env = dict(os.environ, VERIF_REPO=repo, PYTHONPATH=repo, NUMBA_CACHE_DIR=os.path.join(VERIF, ".run", "numba_iot"))
    r = subprocess.run([PY, "-c", SNIPPET, mode], cwd=VERIF, env=env, capture_output=True, text=True)
    if r.returncode != 0:
        raise RuntimeError(f"extraction crashed (it must be total):\n{r.stderr[-3000:]}")
    return json.loads(r.stdout)


def git(*a, cwd=None):
    r = subprocess.run(["git", *a], cwd=cwd, capture_output=True, text=True)
    if r.returncode != 0:
        raise RuntimeError(f"git {' '.join(a)}: {r.stderr}")
    return r.stdout


def reset():
    git("checkout", "--", ".", cwd=WT)
    git("clean", "-fdq", "-e", "__pycache__", cwd=WT)


def edit(rel, old, new, count=1):
    p = os.path.join(WT, rel)
    s = open(p).read()
    assert s.count(old) == count, f"{rel}: {old!r} occurs {s.count(old)} times"
    open(p, "w").write(s.replace(old, new))


ANG, CTF, BRK, EMS = (f"orix/io/plugins/{n}.py" for n in ("ang", "ctf", "bruker_h5ebsd", "emsoft_h5ebsd"))
R8, R9 = os.path.join(RDIR, "refactor8.diff"), os.path.join(RDIR, "refactor9.diff")

REFACTORINGS = [
    ("refactor8 (ang column tables from shared prefixes)", [("apply", R8)], ["ang.columns"]),
    ("refactor9 (ctf patterns / Laue classes at module level)", [("apply", R9)], ["ctf.vendors", "ctf.laue_ids"]),
    ("refactor8 + refactor9", [("apply", R8), ("apply", R9)], ["ang.columns", "ctf.vendors", "ctf.laue_ids"]),
]
REAL = [
    ("seeded C15-1: not-indexed rule dropped for vendor 'orix'", [("apply", os.path.join(VERIF, "seeded/C15-1/patch.diff"))]),
    ("ang: column renamed (emsoft dp -> dotp)", [("edit", ANG, '"dp",  # Dot product', '"dotp",  # Dot product')]),
    ("ang: two columns swapped (astar ind <-> rel)",
     [("edit", ANG, '"ind",  # Correlation index\n                "rel",  # Reliability',
       '"rel",  # Reliability\n                "ind",  # Correlation index')]),
    ("ang: footprint string changed", [("edit", ANG, '"astar": "ACOM",', '"astar": "ACOM RES",')]),
    ("ctf: vendor regex loosened", [("edit", CTF, "ACOM RES results", "ACOM RES result")]),
    ("ctf: vendor regex tightened", [("edit", CTF, '"(?<=)Created from mtex"', '"(?<=)Created from mtex 5"')]),
    ("ctf: Laue-class entry changed", [("edit", CTF, '        "m-3",\n', '        "23",\n')]),
    ("ang: ci == -1 sentinel -> -2", [("edit", ANG, 'data_dict["prop"]["ci"] == -1', 'data_dict["prop"]["ci"] == -2')]),
    ("bruker: dataset name changed", [("edit", BRK, 'self.data_dict["X BEAM"]', 'self.data_dict["XBEAM"]')]),
    ("bruker: euler dataset name changed", [("edit", BRK, 'dd["PHI"]', 'dd["Phi"]')]),
    ("ang: unit string changed", [("edit", ANG, 'scan_unit = "nm"', 'scan_unit = "pm"')]),
    ("bruker: unit string changed", [("edit", BRK, 'scan_unit = "um"', 'scan_unit = "mm"')]),
    ("emsoft: unit string changed", [("edit", EMS, 'scan_unit = "um"', 'scan_unit = "nm"')]),
    ("ctf: unit string changed", [("edit", CTF, 'data_dict["scan_unit"] = "um"', 'data_dict["scan_unit"] = "nm"')]),
    # real changes on top of the refactorings: only the executed source sees them
    ("refactor8 + column renamed", [("apply", R8), ("edit", ANG, '["iq", "dp", "phase_id"]', '["iq", "dotp", "phase_id"]')]),
    ("refactor8 + columns swapped", [("apply", R8), ("edit", ANG, '["ind", "rel", "phase_id", "relx100"]',
                                                      '["rel", "ind", "phase_id", "relx100"]')]),
    ("refactor8 + shared prefix changed", [("apply", R8), ("edit", ANG, 'common = ["euler1", "euler2", "euler3", "x", "y"]',
                                                           'common = ["euler1", "euler2", "euler3", "y", "x"]')]),
    ("refactor9 + Laue-class entry changed", [("apply", R9), ("edit", CTF, '"6/mmm", "m-3", "m-3m"', '"6/mmm", "23", "m-3m"')]),
    ("refactor9 + vendor regex changed", [("apply", R9), ("edit", CTF, "ACOM RES results", "ACOM results")]),
    ("refactor9 + vendor key renamed", [("apply", R9), ("edit", CTF, '    "mtex": re.compile', '    "MTEX": re.compile')]),
]


def do(steps):
    reset()
    for st in steps:
        if st[0] == "apply":
            git("apply", st[1], cwd=WT)
        else:
            edit(*st[1:])


def main():
    ok = True

    def check(cond, what, detail=""):
        nonlocal ok
        print(("PASS " if cond else "FAIL ") + what + (f"   {detail}" if detail else ""), flush=True)
        ok = ok and cond

    # ---- 1 ----
    base = run(REPO)
    ast_only = run(REPO, "ast")
    check(base["text"] == ast_only["text"], "1. unchanged tree: two-source text == AST-only text (the previous extraction)")
    saved = os.path.join(VERIF, ".run", "iot", "baseline.lean")
    if os.path.exists(saved):
        check(base["text"] == open(saved).read(), "1. unchanged tree: text == output saved before the change (.run/iot/baseline.lean)")
    odd = {k: v for k, v in base["status"].items() if v not in ("extracted", "extracted (ast)", "extracted (ast+exec agree)")}
    check(not odd, "1. unchanged tree: every item clean", json.dumps(odd) if odd else
          f"{sum(v == 'extracted (ast+exec agree)' for v in base['status'].values())} of {len(base['status'])} items from both sources")
    if os.path.exists(WT):
        raise SystemExit(f"{WT} exists")
    git("-C", REPO, "worktree", "add", "--detach", WT, "HEAD")
    try:
        wt = run(WT)
        check(wt["text"] == base["text"], "   scratch worktree at HEAD gives the same text as /repo")
        # ---- 2 ----
        for name, steps, items in REFACTORINGS:
            if any(s[0] == "apply" and not os.path.exists(s[1]) for s in steps):
                check(False, f"2. {name}", "diff not found")
                continue
            do(steps)
            got = run(WT)
            old = run(WT, "ast")
            via = "; ".join(f"{k}: {got['status'].get(k, '')[:40]}" for k in items)
            check(got["text"] == base["text"], f"2. {name}: text identical", via)
            check(old["text"] != base["text"], "   (the AST source alone does not survive it)")
        # ---- 3 ----
        for name, steps in REAL:
            if any(s[0] == "apply" and not os.path.exists(s[1]) for s in steps):
                check(False, f"3. {name}", "diff not found")
                continue
            do(steps)
            got = run(WT)
            changed = [k for k in got["status"] if got["status"][k] != base["status"].get(k)]
            check(got["text"] != base["text"], f"3. {name}: text differs",
                  "; ".join(f"{k}: {got['status'][k][:110]}" for k in changed[:3]))
    finally:
        if "--keep" not in sys.argv:
            git("-C", REPO, "worktree", "remove", "--force", WT)
            git("-C", REPO, "worktree", "prune")
    print("ALL PASSED" if ok else "SOME FAILED")
    return 0 if ok else 1


if __name__ == "__main__":
    sys.exit(main())
