#!/venv/bin/python
"""Acceptance tests of the two-source I/O table extraction (harness/extract/tables_io.py + io_probe.py).

  1. unchanged tree: generate() == the AST-only text (today's extraction) == optional saved baseline
  2. behaviour-preserving refactorings (refactor8/9.diff): text byte-identical to the unchanged tree's
  3. real changes (seeded patch + hand edits, also on top of the refactorings): text differs

Only plain Python: every tree is a scratch `git worktree` of /repo (never /repo's working tree, no stash), the
extraction runs in a subprocess with VERIF_REPO/PYTHONPATH pointing at it; nothing under lean/ is written.
Usage: tools/test_tables_io.py [--keep] [--refactor-dir DIR]      exit 0 = all passed"""
import json
import os
import subprocess
import sys

VERIF = os.path.dirname(os.path.dirname(os.path.abspath(__file__)))
REPO = "/repo"
WT = f"/tmp/iot_wt_{os.getpid()}"
RDIR = "/tmp/seed3/R1/_out"
if "--refactor-dir" in sys.argv:
    RDIR = sys.argv[sys.argv.index("--refactor-dir") + 1]
PY = "/venv/bin/python"
SNIPPET = ("import json,sys\nfrom harness.extract import tables_io\n"
           "mode = sys.argv[1]\nt, s = tables_io.generate(execute=(mode == 'both'))\n"
           "json.dump({'text': t, 'status': s}, sys.stdout)\n")


def run(repo, mode="both"):
    env = dict(os.environ, VERIF_REPO=repo, PYTHONPATH=repo, NUMBA_CACHE_DIR=os.path.join(VERIF, ".run", "numba_iot"))
    r = subprocess.run([PY, "-c", SNIPPET, mode], cwd=VERIF, env=env, capture_output=True, text=True)
    if r.returncode != 0:
        raise RuntimeError(f"extraction crashed (it must be total):\n{r.stderr[-3000:]}")
    return json.loads(r.stdout)


def git(*a, cwd=None):
    r = subprocess.run(["git", *a], cwd=cwd, capture_output=True, text=True)
    if r.returncode != 0:
        raise RuntimeError(f"git {' '.join(a)}: {r.stderr}")
    return r.stdout


def reset():
    git("checkout", "--", ".", cwd=WT)
    git("clean", "-fdq", "-e", "__pycache__", cwd=WT)


def edit(rel, old, new, count=1):
    p = os.path.join(WT, rel)
    s = open(p).read()
    assert s.count(old) == count, f"{rel}: {old!r} occurs {s.count(old)} times"
    open(p, "w").write(s.replace(old, new))


ANG, CTF, BRK, EMS = (f"orix/io/plugins/{n}.py" for n in ("ang", "ctf", "bruker_h5ebsd", "emsoft_h5ebsd"))
R8, R9 = os.path.join(RDIR, "refactor8.diff"), os.path.join(RDIR, "refactor9.diff")

REFACTORINGS = [
    ("refactor8 (ang column tables from shared prefixes)", [("apply", R8)], ["ang.columns"]),
    ("refactor9 (ctf patterns / Laue classes at module level)", [("apply", R9)], ["ctf.vendors", "ctf.laue_ids"]),
    ("refactor8 + refactor9", [("apply", R8), ("apply", R9)], ["ang.columns", "ctf.vendors", "ctf.laue_ids"]),
]
# further behaviour-preserving rewrites (hand-made) that defeat the AST source of other items
OWN = [
    ("own: ang footprint table moved to module level, local removed",
     [("edit", ANG, '    vendor_footprint = {\n        "emsoft": "EMsoft",\n        "astar": "ACOM",\n'
                    '        "orix": "Column names: phi1, Phi, phi2",\n    }\n', ''),
      ("edit", ANG, "in vendor_footprint.items():", "in _FOOTPRINTS.items():"),
      ("edit", ANG, "\n\ndef file_reader(", '\n\n_FOOTPRINTS = dict(emsoft="EMsoft", astar="ACOM", '
                    'orix="Column names: " + ", ".join(["phi1", "Phi", "phi2"]))\n\n\ndef file_reader(')],
     ["ang.footprint"]),
    ("own: ang column table local renamed and deep-copied",
     [("edit", ANG, '    column_names = {\n        "tsl"', '    tables = {\n        "tsl"'),
      ("edit", ANG, "column_names[vendor]", "tables[vendor]", 5),
      ("edit", ANG, "    n_variants = len(", "    tables = {k: dict(v) for k, v in tables.items()}\n    n_variants = len(")],
     ["ang.columns"]),
    ("own: ang writer sentinels from a table, not-indexed rule spelled differently",
     [("edit", ANG, '    prop_arrays[~indexed_points, 0::2] = 0  # IQ, detector signal\n'
                    '    prop_arrays[~indexed_points, 1] = -1  # CI\n'
                    '    prop_arrays[~indexed_points, 3] = 180  # Pattern fit\n'
                    '    prop_arrays[~indexed_points, 4:] = 0\n',
       '    for cols, value in ((slice(0, None, 2), 0), (1, -1), (3, 180), (slice(4, None), 0)):\n'
       '        prop_arrays[~indexed_points, cols] = value\n'),
      ("edit", ANG, '    if vendor in ["orix", "tsl"]:\n        not_indexed = data_dict["prop"]["ci"] == -1\n',
       '    if vendor == "tsl" or vendor == "orix":\n'
       '        not_indexed = np.isclose(data_dict["prop"]["ci"], -1.0, rtol=0, atol=0)\n'),
      ("edit", ANG, "    eulers[~indexed_points] = 4 * np.pi\n",
       "    np.place(eulers, np.repeat(~indexed_points, 3), 4 * np.pi)\n"),
      ("edit", ANG, '    if vendor == "astar":\n        scan_unit = "nm"\n    else:\n        scan_unit = "um"\n',
       '    scan_unit = {"astar": "nm"}.get(vendor, "um")\n')],
     ["ang.prop_sentinels", "ang.not_indexed", "ang.euler_sentinel", "ang.units"]),
    ("own: ctf column list built from a tuple, phase-0 rule / unit / degrees spelled differently",
     [("edit", CTF, "    column_names = [\n", "    column_names = list((\n"),
      ("edit", CTF, '        "BS",  # Band slope\n    ]\n', '        "BS",  # Band slope\n    ))\n'),
      ("edit", CTF, '    not_indexed = data_dict["phase_id"] == 0\n',
       '    not_indexed = np.logical_not(data_dict["phase_id"].astype(bool))\n'),
      ("edit", CTF, '    data_dict["scan_unit"] = "um"\n', '    data_dict.update(scan_unit="um")\n'),
      ("edit", CTF, '    if vendor == "astar":\n        data_dict = _fix_astar_coords(header, data_dict)\n',
       '    fix = {"astar": _fix_astar_coords}.get(vendor)\n    if fix is not None:\n        data_dict = fix(header, data_dict)\n')],
     ["ctf.columns", "ctf.not_indexed", "ctf.unit", "ctf.astar_vendor"]),
    ("own: bruker properties from a key list, unit in __init__-free property",
     [("re", BRK, r"        self\.properties = dict\(\n(?:            \w+=self\.data_dict\[\"[^\"]+\"\],\n)+        \)\n",
       '        spaced = ("BEAM", "SAMPLE")\n'
       '        keys = ["PCX", "PCY", "DD", "MAD", "MADPhase", "NIndexedBands", "RadonBandCount", "RadonQuality",\n'
       '                "XBEAM", "YBEAM", "XSAMPLE", "YSAMPLE", "ZSAMPLE"]\n'
       '        self.properties = {\n'
       '            k: self.data_dict[k[0] + " " + k[1:] if k[1:] in spaced else k] for k in keys\n'
       '        }\n'),
      ("edit", BRK, '        euler = np.column_stack([dd["phi1"], dd["PHI"], dd["phi2"]])\n        euler = np.deg2rad(euler)\n',
       '        euler = np.stack([dd[k] for k in ("phi1", "PHI", "phi2")], axis=1) * (np.pi / 180)\n')],
     ["bruker.props", "bruker.eulers"]),
    ("own: emsoft expected properties as class-level tuple",
     [("re", EMS, r"        expected_properties = \[\n((?:            \"\w+\",\n)+)        \]\n", ""),
      ("edit", EMS, "for property_name in expected_properties:", "for property_name in self.expected_properties:"),
      ("edit", EMS, "    read_refined = False\n", '    read_refined = False\n    expected_properties = (\n        "AvDotProductMap",\n'
       '        "CI",\n        "IQ",\n        "ISM",\n        "KAM",\n        "OSM",\n        "RefinedDotProducts",\n'
       '        "TopDotProductList",\n        "TopMatchIndices",\n    )\n')],
     ["emsoft.props"]),
]
REAL = [
    ("seeded C15-1: not-indexed rule dropped for vendor 'orix'", [("apply", os.path.join(VERIF, "seeded/C15-1/patch.diff"))]),
    ("ang: column renamed (emsoft dp -> dotp)", [("edit", ANG, '"dp",  # Dot product', '"dotp",  # Dot product')]),
    ("ang: two columns swapped (astar ind <-> rel)",
     [("edit", ANG, '"ind",  # Correlation index\n                "rel",  # Reliability',
       '"rel",  # Reliability\n                "ind",  # Correlation index')]),
    ("ang: footprint string changed", [("edit", ANG, '"astar": "ACOM",', '"astar": "ACOM RES",')]),
    ("ctf: vendor regex loosened", [("edit", CTF, "ACOM RES results", "ACOM RES result")]),
    ("ctf: vendor regex tightened", [("edit", CTF, '"(?<=)Created from mtex"', '"(?<=)Created from mtex 5"')]),
    ("ctf: Laue-class entry changed", [("edit", CTF, '        "m-3",\n', '        "23",\n')]),
    ("ang: ci == -1 sentinel -> -2", [("edit", ANG, 'data_dict["prop"]["ci"] == -1', 'data_dict["prop"]["ci"] == -2')]),
    ("bruker: dataset name changed", [("edit", BRK, 'self.data_dict["X BEAM"]', 'self.data_dict["XBEAM"]')]),
    ("bruker: euler dataset name changed", [("edit", BRK, 'dd["PHI"]', 'dd["Phi"]')]),
    ("ang: unit string changed", [("edit", ANG, 'scan_unit = "nm"', 'scan_unit = "pm"')]),
    ("bruker: unit string changed", [("edit", BRK, 'scan_unit = "um"', 'scan_unit = "mm"')]),
    ("emsoft: unit string changed", [("edit", EMS, 'scan_unit = "um"', 'scan_unit = "nm"')]),
    ("ctf: unit string changed", [("edit", CTF, 'data_dict["scan_unit"] = "um"', 'data_dict["scan_unit"] = "nm"')]),
    # real changes on top of the refactorings: only the executed source sees them
    ("refactor8 + column renamed", [("apply", R8), ("edit", ANG, '["iq", "dp", "phase_id"]', '["iq", "dotp", "phase_id"]')]),
    ("refactor8 + columns swapped", [("apply", R8), ("edit", ANG, '["ind", "rel", "phase_id", "relx100"]',
                                                      '["rel", "ind", "phase_id", "relx100"]')]),
    ("refactor8 + shared prefix changed", [("apply", R8), ("edit", ANG, 'common = ["euler1", "euler2", "euler3", "x", "y"]',
                                                           'common = ["euler1", "euler2", "euler3", "y", "x"]')]),
    ("refactor9 + Laue-class entry changed", [("apply", R9), ("edit", CTF, '"6/mmm", "m-3", "m-3m"', '"6/mmm", "23", "m-3m"')]),
    ("refactor9 + vendor regex changed", [("apply", R9), ("edit", CTF, "ACOM RES results", "ACOM results")]),
    ("refactor9 + vendor key renamed", [("apply", R9), ("edit", CTF, '    "mtex": re.compile', '    "MTEX": re.compile')]),
]


def do(steps):
    import re
    reset()
    for st in steps:
        if st[0] == "apply":
            git("apply", st[1], cwd=WT)
        elif st[0] == "re":
            p = os.path.join(WT, st[1])
            s, n = re.subn(st[2], st[3].replace("\\", "\\\\"), open(p).read())
            assert n == 1, f"{st[1]}: pattern {st[2]!r} matched {n} times"
            open(p, "w").write(s)
        else:
            edit(*st[1:])


def main():
    ok = True

    def check(cond, what, detail=""):
        nonlocal ok
        print(("PASS " if cond else "FAIL ") + what + (f"   {detail}" if detail else ""), flush=True)
        ok = ok and cond

    # ---- 1 ----
    base = run(REPO)
    ast_only = run(REPO, "ast")
    check(base["text"] == ast_only["text"], "1. unchanged tree: two-source text == AST-only text (the previous extraction)")
    saved = os.path.join(VERIF, ".run", "iot", "baseline.lean")
    if os.path.exists(saved):
        check(base["text"] == open(saved).read(), "1. unchanged tree: text == output saved before the change (.run/iot/baseline.lean)")
    odd = {k: v for k, v in base["status"].items() if v not in ("extracted", "extracted (ast)", "extracted (ast+exec agree)")}
    check(not odd, "1. unchanged tree: every item clean", json.dumps(odd) if odd else
          f"{sum(v == 'extracted (ast+exec agree)' for v in base['status'].values())} of {len(base['status'])} items from both sources")
    if os.path.exists(WT):
        raise SystemExit(f"{WT} exists")
    git("-C", REPO, "worktree", "add", "--detach", WT, "HEAD")
    try:
        wt = run(WT)
        check(wt["text"] == base["text"], "   scratch worktree at HEAD gives the same text as /repo")
        # ---- 2 ----
        for name, steps, items in REFACTORINGS + ([] if "--no-own" in sys.argv else OWN):
            if any(s[0] == "apply" and not os.path.exists(s[1]) for s in steps):
                check(False, f"2. {name}", "diff not found")
                continue
            do(steps)
            got = run(WT)
            old = run(WT, "ast")
            via = "; ".join(f"{k}: {got['status'].get(k, '')[:40]}" for k in items)
            check(got["text"] == base["text"], f"2. {name}: text identical", via)
            check(old["text"] != base["text"], "   (the AST source alone does not survive it)")
            import py_compile
            for rel in (ANG, CTF, BRK, EMS):
                py_compile.compile(os.path.join(WT, rel), doraise=True)
        # ---- 3 ----
        for name, steps in REAL:
            if any(s[0] == "apply" and not os.path.exists(s[1]) for s in steps):
                check(False, f"3. {name}", "diff not found")
                continue
            do(steps)
            got = run(WT)
            changed = [k for k in got["status"] if got["status"][k] != base["status"].get(k)]
            check(got["text"] != base["text"], f"3. {name}: text differs",
                  "; ".join(f"{k}: {got['status'][k][:110]}" for k in changed[:3]))
    finally:
        if "--keep" not in sys.argv:
            git("-C", REPO, "worktree", "remove", "--force", WT)
            git("-C", REPO, "worktree", "prune")
    print("ALL PASSED" if ok else "SOME FAILED")
    return 0 if ok else 1


if __name__ == "__main__":
    sys.exit(main())
