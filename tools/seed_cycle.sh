#!/bin/sh
# usage: seed_cycle.sh <root> <Cxx> <k> [checks…]   validate a sub-agent's patch k, then run the checks against it in a scratch tree
root=$1; id=$2; k=$3; shift 3
checks=${*:-$id}
mkdir -p $root/results
python3 /verif/tools/validate_seed.py $root/$id/_out/patch$k.diff $root/$id/_out/demo$k.py /tmp/valseed_${id}_$k > $root/results/${id}_$k.json 2>&1
echo "validate exit $?"; grep -E '"(valid|suite_ok|demo_with_patch_exit|demo_clean_exit)"' $root/results/${id}_$k.json
cd /verif && flock /tmp/seedcycle.lock python3 tools/run_seeded.py --scratch $root/$id/_out/patch$k.diff $checks 2>&1 | cut -c1-420
