#!/usr/bin/env python3
"""Copy validated seeded changes from /tmp/seed/<Cxx>/_out into /verif/seeded/<Cxx>-<n>/ with meta.json and rebuild
seeded/README.md.  META = what the lead observed when running the checks against each change."""
import json, os, shutil
M = {
 ("C01",1): ("om2qu_single two-fold branch reads the sign of d from om[0,2]+om[2,0] instead of om[1,2]+om[2,1]", "rotation by exactly 180 deg about an axis in the y-z plane with y and z of opposite sign", ["C01: to_matrix roundtrip (failing input); T-ast obligation om2qu_single_eq_model"], None),
 ("C01",2): ("qu2ax_single identity cut-off tests 1 - a < eps9 instead of omega < eps9", "rotation angles between ~1e-9 and 8.9e-5 rad", ["C01: to_axes_angles reference + roundtrip (failing input)"], None),
 ("C02",1): ("Rotation.outer: improper-flag handling moved under the eager branch, lazy=True skips it", "lazy=True with at least one improper rotation", ["C02: outer_index (failing input)"], None),
 ("C02",2): ("Rotation.__mul__(Vector3d): improper mask built with np.resize (tiling) instead of broadcasting", "mixed proper/improper rotations with a trailing size-1 axis broadcast against vectors, e.g. (3,1) x (4,)", ["C02: broadcast_vec (failing input)"], "C02 had no rotation x vector broadcasting cases with mixed flags: site broadcast_vec added"),
 ("C03",1): ("Symmetry._tuples memoised in a dict keyed by the group NAME only", "Laue groups of axis-setting variants share a name ('2/m', '-3m') with a named group: queries on them (or, in a fresh process asked first, on the named group) answer for the other group", ["C03: group_axioms (Laue-object queries) + query_order (failing input)"], "C03 only queried the 38 named objects in table order: queries on the Laue-group objects and a fresh-process random query order added"),
 ("C03",2): ("Phase.point_group getter prefers a stored explicit point group; the space_group setter never resets it", "a phase with an explicit point group whose space group is set or changed afterwards", ["C03: spacegroup with construction histories pg_then_sg / both_then_sg (failing input)"], "C03 only built Phase(space_group=n): phases whose space group is assigned after construction added"),
 ("C04",1): ("Orientation.dot: arguments of _get_unique_symmetry_elements swapped", "two-phase comparison of groups whose product set depends on the order (trigonal/hexagonal vs cubic)", ["C04: pairwise (failing input)"], None),
 ("C04",2): ("Orientation._dot_outer_dask: axis permutation built from self.ndim instead of other.ndim", "lazy=True and self.ndim != other.ndim", ["C04: outer (failing input)", "C18: symmetry_lazy (failing input)"], None),
 ("C05",1): ("get_distinguished_points: s1.outer(s2) -> s2.outer(s1)", "ordered pairs cubic x trigonal/hexagonal; 2-10 % of misorientations", ["C05: large_cell_normals + reduce (failing input)"], "C05 sampled too few cubic x hexagonal ordered pairs and took the distinguished points from the code under test: independent products gl*gr and all cross-family pairs added"),
 ("C05",2): ("get_proper_groups: Gr.proper_subgroup -> Gr.laue_proper_subgroup in the proper/improper branch", "Gr one of the 10 improper groups without inversion", ["C05: reduce (failing input)"], None),
 ("C06",1): ("Orientation.dot builds the misorientation from .data (improper flags dropped)", "a point group with improper operations but no inversion, exactly one of the two orientations improper; element-wise path only", ["C06: relation (failing input)"], None),
 ("C06",2): ("Misorientation.map_into_symmetry_reduced_zone builds the region for (Gr, Gl)", "two different point groups with Gl.Gr != Gr.Gl (cubic x hexagonal/trigonal), 3-10 % of misorientations", ["C05: reduce (failing input)", "C06: subtract (failing input)"], "C06 never compared the subtraction path O1 - O2 with angle_with: site subtract with bulk interphase pairs added"),
 ("C13",1): ("dict2phaselist sorts the HDF5 group names as strings and pairs them with the numerically sorted ids", "a phase list with a two-digit id next to a smaller id that sorts after it as text (2 and 10)", ["C13: h5_prop (failing input)"], "C13 drew phase ids below 8 only: two- and three-digit ids added"),
 ("C13",2): ("atom coordinates written/read through the lattice (fractional vs Cartesian mix-up)", "a phase with atoms in a non-cubic lattice", ["C13: h5_prop (failing input)"], None),
 ("C14",1): ("ang writer renumbers phases without the reversal", "two or more phases", ["C14: ang_corr (model file vs written file)", "C14: ang_prop (failing input)"], None),
 ("C14",2): ("proper point group looked up through the wrong table on load/save", "phases whose point group is improper (proper subgroup expected)", ["C14: ang_prop (failing input)"], None),
 ("C15",1): ("ang reader applies the ci == -1 not-indexed rule to vendor 'tsl' only (orix layout dropped)", "a multi-phase file in orix's own .ang layout with not-indexed points (phase column 0, ci -1)", ["C15: orix_ang_prop (failing input); T-gen obligation CodecAngGen", "C14: ang_prop (failing input)"], "the IO table extractor crashed on the changed source (harness error instead of a verdict): extractor made total; C15 had no file in orix's own layout: sites orix_ang_corr / orix_ang_prop render the model writer's file independently of orix's writer"),
 ("C15",2): ("_fix_astar_coords rebuilds coordinates with create_coordinate_arrays(shape, (xstep, ystep)) (steps swapped)", "a NanoMegas ASTAR .ctf whose XStep differs from YStep and whose 4-decimal coordinates make shape detection fail", ["C15: vendor_prop (failing input)"], "C15 generated ASTAR .ctf files with equal steps only: unequal steps added"),
 ("C07",1): ("in_fundamental_sector: v.z < 0 -> v.z <= 0 in the hemisphere pre-flip of the special groups", "groups -4, -3, 321, 312, 32 and a direction with z exactly 0", ["C07: projection, idempotence (failing input)"], None),
 ("C07",2): ("sector operations cached in a dict keyed by symmetry.name only", "projection with '2/m' (C2h) and then with the Laue group of 121/1m1 (also named '2/m') in one process", ["C07: projection (failing input)", "C08: direction_colour (failing input)"], None),
 ("C08",1): ("polar_coordinates_in_sector uses np.fmin instead of NaN replacement + np.minimum", "a direction that is bit-exactly the sector centre", ["C08: direction_colour, non-finite colour (failing input)"], None),
 ("C08",2): ("colour keys use symmetry.laue only for proper groups ('improper' mistaken for 'centrosymmetric'), two cooperating constructors", "a key built from a non-centrosymmetric group with improper operations (m, mm2, -4, 4mm, -42m, 3m, -6, 6mm, -6m2, -43m)", ["C08: direction_colour (failing input)"], None),
 ("C09",1): ("Phase.structure setter aligns with x='a', y='b*' instead of x='a', z='c*'", "triclinic / rhombohedral-axes lattices", ["C09: alignment (failing input)"], None),
 ("C09",2): ("_hkl2hkil rewritten with hkl.T (reverses all axes)", "hkil format with two or more navigation dimensions", ["C09: roundtrip (failing input)"], None),
 ("C10",1): ("Miller.multiplicity reshapes in C order", "instances with >= 2 dimensions and different multiplicities", ["C10: symmetrise (failing input)"], None),
 ("C10",2): ("_round_indices computes max_per_set before dropping the redundant Miller-Bravais index", "hkil/UVTW with |i| > max_index while the other indices are <= max_index", ["C10: round four_index (failing input)"], "C10 rounded only three-index vectors: Miller-Bravais cases whose redundant index exceeds max_index added"),
 ("C11",1): ("_data_slices_from_coordinates: start index int(c_min/step) without rounding", "non-integer step/origin where (k*step)/step is a hair below k", ["C11: set_semantics + geometry (failing input)"], None),
 ("C11",2): ("CrystalMap.prop refreshes the shared property mask only when the point count differs", "two live selections of one map with equally many points, read alternately", ["C11: live_views (failing input)"], "C11 histories were linear (only the newest view observed): several live views read in interleaved order added (harness/props/xmap_views.py)"),
 ("C12",1): ("__getitem__ writes the new mask into the shared property container and __setattr__ bypasses the refresh", "assignment through a selection that is not the latest user of the shared container", ["C12: live_views_assign (failing input)"], "as C11-2: assignments through several live views added"),
 ("C12",2): ("PhaseList.add derives the new id from the number of non-negative ids instead of max+1", "phase ids not starting at 0 or with a gap", ["C12: invariant (failing input)"], None),
 ("C16",1): ("Rotation.transpose fills improper flags with reshape instead of transpose", "ndim >= 2, non-identity transpose, mixed improper flags", ["C16: prog_index (failing input)"], None),
 ("C16",2): ("Vector3d.azimuth works on views of the data again (mutates operand)", "an x or y component with 0 < |c| <~ 1e-8", ["C16: nomut (failing input)"], None),
 ("C17",1): ("Rotation.unique(antipodal=False) drops the improper flag from the key", "antipodal=False, a proper and an improper rotation with identical quaternion", ["C17: uniq_prop cover (failing input)"], None),
 ("C17",2): ("Object3d.unique rounds to 8 instead of 10 decimals", "entries differing by 1e-10 .. 1e-8", ["C17: uniq_prop (failing input)"], None),
 ("C18",1): ("lazy _dot_outer_dask: properness mask ignores symmetry.improper", "symmetries with improper operations, lazy=True", ["C18: symmetry_lazy (failing input)", "C04: outer (failing input)"], None),
 ("C18",2): ("built-in fallback Quaternion*Vector3d uses self.data instead of self.unit.data", "fallback backend and a non-unit Quaternion rotating vectors", ["C18: strategies nonunit_backends (failing input)"], "the known-finding predicate for non-unit lazy q x v swallowed every failure of that case: predicate narrowed to the lazy comparison and eager/element-wise backend comparison for non-unit quaternions added"),
 ("C19",1): ("get_sample_fundamental: sign canonicalisation + unique(antipodal=False) leaves a == 0 duplicates", "method='quaternion', even ceil(360/res), groups whose zone contains 180 deg rotations", ["C19: so3_sample duplicates (failing input)"], None),
 ("C19",2): ("sample_S2_cube_mesh normalises before appending the two corner points", "the three cube methods: 2 of N vectors have length sqrt(3)", ["C19: s2_sample non-unit (failing input)"], None),
 ("C20",1): ("pole_density_function pre-filters with the strict hemisphere test", "a vector with z exactly 0", ["C20: pdf (failing input)"], None),
 ("C20",2): ("normalisation moved out of _vector2xy; vector2xy_split left projecting raw coordinates", "non-unit vectors through vector2xy_split", ["C20: bijection/split (failing input)"], None),
}
extra = os.path.join(os.path.dirname(__file__), "seed_meta_extra.json")
if os.path.exists(extra):
    for k, v in json.load(open(extra)).items():
        a, b = k.split("-")
        M[(a, int(b))] = tuple(v)
rows = []
for (pid, n), val in sorted(M.items()):
    what, needs, caught, missed = val[:4]
    fprops = list(val[4]) if len(val) > 4 else None        # file-targeted round: the properties the change breaks
    # round 1: <id>-1/-2 (/tmp/seed), round 2: -3/-4 (/tmp/seed2), round 3: -5/-6 (/tmp/seed4), round 4: -7/-8 (/tmp/seed5)
    root, k = ["/tmp/seed", "/tmp/seed2", "/tmp/seed4", "/tmp/seed5", "/tmp/seed6", "/tmp/seed8", "/tmp/seed10", "/tmp/seed11", "/tmp/seed12"][(n - 1) // 2], (n - 1) % 2 + 1
    if root == "/tmp/seed8" and not os.path.exists(f"{root}/{pid}") and os.path.exists(f"/tmp/seed9/{pid}"):
        root = "/tmp/seed9"                                 # round 8: the ten properties round 7 left out
    if pid.startswith("F"):                                 # round 6: targets are files, /tmp/seed7/Fxx
        root, k = "/tmp/seed7", n
    src = f"{root}/{pid}/_out"
    d = f"/verif/seeded/{pid}-{n}"
    resf = f"{root}/results/{pid}_{k}.json"
    res = None
    try:
        res = json.load(open(resf))
    except Exception:
        pass
    if (res is None or not os.path.exists(f"{src}/patch{k}.diff")) and os.path.exists(f"{d}/meta.json"):
        meta = json.load(open(f"{d}/meta.json"))   # already recorded earlier
    else:
        if res is None or not res.get("valid"):
            print("skip (not validated)", pid, n)
            continue
        os.makedirs(d, exist_ok=True)
        shutil.copy(f"{src}/patch{k}.diff", f"{d}/patch.diff")
        shutil.copy(f"{src}/demo{k}.py", f"{d}/demo.py")
        meta = {"id": f"{pid}-{n}", "property": pid, "change": what, "needs_to_manifest": needs,
                "author": "independent sub-agent given only the property text and a scratch worktree of /repo",
                "validated": {"how": "tools/validate_seed.py in a scratch worktree of /repo's HEAD: patch applies; demo exits non-zero "
                                     "with the patch; all 2319 BASELINE stable-pass tests pass with the patch; demo exits 0 without it",
                              "demo_exit_with_patch": res["demo_with_patch_exit"], "suite_ok": res["suite_ok"],
                              "demo_exit_clean": res["demo_clean_exit"]},
                "checks_run": "tools/run_seeded.py [--scratch] seeded/<id>/patch.diff <checks> (quick tier); /repo restored afterwards"}
    meta.update({"change": what, "needs_to_manifest": needs, "caught_by": caught, "initially_missed": bool(missed),
                 "strengthening": missed})
    if fprops:
        meta["property"] = fprops
        meta["author"] = ("independent sub-agent given a set of source files, the texts of all twenty properties and a scratch "
                          "worktree of /repo")
    json.dump(meta, open(f"{d}/meta.json", "w"), indent=1)
    rows.append((f"{pid}-{n}", what, needs, "; ".join(caught), missed or "—"))
open("/verif/seeded/README.md", "w").write(
    "# Seeded changes (written by independent sub-agents; validated and run by the lead)\n\n"
    "Each directory: `patch.diff` (against /repo), `demo.py` (exits non-zero with the patch, 0 without), `meta.json`.\n"
    "Run one: `python3 tools/run_seeded.py seeded/<id>/patch.diff Cxx` (applies to /repo, runs the check, undoes).\n"
    f"{len(rows)} changes, all caught with a failing input; {sum(1 for r in rows if r[4] != '—')} were missed at first and led "
    "to a strengthened check (last column).\n\n"
    "| id | change | needs to manifest | caught by | missed at first → strengthening |\n|---|---|---|---|---|\n"
    + "\n".join(f"| {a} | {b} | {c} | {d} | {e} |" for a, b, c, d, e in rows) + "\n")
print(len(rows), "recorded")
