#!/usr/bin/env python3
"""Apply a seeded change to /repo, run the given checks, undo.  Usage: run_seeded.py <patch> Cxx [Cyy …]
Prints per check: exit code and the VIOLATION lines.  /repo must be clean before and is clean after."""
import json, os, subprocess, sys
import atexit, shutil as _sh, tempfile as _tf
# evidence files written while a seeded change is applied describe the CHANGED tree: keep the committed ones
_VERIF = os.path.dirname(os.path.dirname(os.path.abspath(__file__)))
_evbak = _tf.mkdtemp(prefix="evbak_", dir="/tmp")
_sh.copytree(os.path.join(_VERIF, "evidence"), os.path.join(_evbak, "evidence"))


def _restore_evidence():
    dst = os.path.join(_VERIF, "evidence")
    for fn in os.listdir(os.path.join(_evbak, "evidence")):
        _sh.copy(os.path.join(_evbak, "evidence", fn), os.path.join(dst, fn))
    _sh.rmtree(_evbak, ignore_errors=True)


atexit.register(_restore_evidence)
args = [a for a in sys.argv[1:] if a != "--scratch"]
scratch = "--scratch" in sys.argv
patch = os.path.abspath(args[0])
ids = args[1:]
if scratch:
    # run the checks against a scratch worktree (PYTHONPATH + VERIF_REPO) instead of /repo: only for changes that do
    # not alter any generated Lean file (otherwise concurrent users of lean/ are disturbed)
    import shutil, tempfile
    wt = tempfile.mkdtemp(prefix="runseed_", dir="/tmp")
    shutil.rmtree(wt)
    subprocess.run(["git", "-C", "/repo", "worktree", "add", "-q", "--detach", wt, "HEAD"], check=True)
    out = {}
    try:
        subprocess.run(["git", "-C", wt, "apply", patch], check=True)
        env = dict(os.environ, PYTHONPATH=wt, VERIF_REPO=wt)
        for i in ids:
            p = subprocess.run(["./check", i], cwd=os.path.dirname(os.path.dirname(os.path.abspath(__file__))),
                               capture_output=True, text=True, timeout=7200, env=env)
            lines = [l for l in p.stdout.split("\n") if l.startswith("VIOLATION") or l.startswith("  site=")
                     or l.startswith("ERROR")]
            out[i] = {"exit": p.returncode, "lines": [l[:300] for l in lines[:8]]}
    finally:
        subprocess.run(["git", "-C", "/repo", "worktree", "remove", "--force", wt])
        shutil.rmtree(wt, ignore_errors=True)
    print(json.dumps(out, indent=1))
    sys.exit(0)
st = subprocess.run(["git", "-C", "/repo", "status", "--porcelain", "--untracked-files=no"], capture_output=True, text=True).stdout
if st.strip():
    sys.exit("refusing: /repo has uncommitted changes:\n" + st)
subprocess.run(["git", "-C", "/repo", "apply", patch], check=True)
out = {}
try:
    for i in ids:
        p = subprocess.run(["./check", i], cwd=os.path.dirname(os.path.dirname(os.path.abspath(__file__))),
                           capture_output=True, text=True, timeout=7200)
        lines = [l for l in p.stdout.split("\n") if l.startswith("VIOLATION") or l.startswith("  site=")
                 or l.startswith("ERROR")]
        out[i] = {"exit": p.returncode, "lines": [l[:300] for l in lines[:8]]}
finally:
    subprocess.run(["git", "-C", "/repo", "checkout", "--", "."], check=True)
print(json.dumps(out, indent=1))
