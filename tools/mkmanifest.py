#!/usr/bin/env python3
"""Rebuild MANIFEST.json from the table below (kept in one place so it is always schema-valid)."""
import json, os
HERE = os.path.dirname(os.path.dirname(os.path.abspath(__file__)))
ids = [json.loads(l)["id"] for l in open(os.path.join(HERE, "properties.jsonl"))]
NOTE = ("Trusted: Lean 4.33 kernel, Mathlib definitions, axioms propext/Classical.choice/Quot.sound (audited per theorem "
        "on every run), the AST translator / table extractor, and the differential correspondence check that ties the "
        "hand-written model to the running code. Floating-point rounding and third-party libraries are outside the "
        "theorems (modelled by contract, exercised by the correspondence).")
CLAIMS = {
 "C02": dict(category="proof", design_ref="DESIGN.md section 5 C02",
   technique="Lean 4 theorems over the reals (ring identities) + AST-translated kernels proved equal to the model + differential correspondence",
   text="All algebraic clauses (associativity, norm multiplicativity, inverse, composition law on vectors, matrix of a "
        "product, orthogonality, isometry, handedness, parity of improper flags, action of improper rotations) are Lean "
        "theorems for every real quaternion/rotation/vector. The numba kernels and the dask einsum tables are translated "
        "from the Python AST on every run and proved equal to the model by `ring`; the numpy-quaternion/dask/class-plumbing "
        "paths, outer-product indexing and alignment are tied by the correspondence check (exact on integer inputs)."),
 "C03": dict(category="proof", design_ref="DESIGN.md section 5 C03",
   technique="Lean 4: tables regenerated from the live objects, Boolean checkers with proved soundness decided by the kernel (decide +kernel) over the complete finite domain",
   text="Finite and complete. On every run the 38 point-group objects (every operation as an integer matrix in lattice "
        "coordinates, Laue group, proper subgroup, subgroup lists, query flags) and the 230 space groups (diffpy rotation "
        "parts, point group orix assigns) are regenerated from /repo into Lean; the kernel decides group axioms, order, "
        "Laue/proper-subgroup/query clauses, all 38x38 subgroup pairs, equality with an independent Hermann-Mauguin "
        "reference table, and the space-group clause for all 230 numbers; soundness lemmas lift the runs to the declarative "
        "theorems. The known deviations (mm2 setting; 50 space groups) are proved to be deviations, not hidden. The same "
        "clauses are evaluated numerically on the implementation in the Cartesian frame as the failing-input search."),
 "C07": dict(category="proof", design_ref="DESIGN.md section 5 C07",
   technique="Lean 4: Dirichlet-cell theory proved once over the reals; per-sector integer certificates regenerated from the live sectors and checked by decide +kernel; differential check of the projection",
   text="The tiling clause is proved for every one of the 76 sectors (38 point-group objects and their Laue groups): on every "
        "run the sector normals are regenerated from /repo as integer covectors in lattice coordinates, the harness proposes "
        "Dirichlet-cell (or two-stage half-space + cell) certificates, the Lean kernel checks them, and a soundness theorem "
        "lifts each run to: every real direction has an equivalent in the closed sector and a direction strictly inside has no "
        "other equivalent in the closed sector. Six sectors are proved NOT to be fundamental domains (kernel-checked "
        "witnesses; known findings). Projection theorems (argmax rule lands in the cell, idempotence with the keep-inside rule, "
        "result in the orbit, constancy on orbits off the boundary) are proved for the exact-centre model; that the "
        "implementation, whose sector centres are numeric, lands inside the sector is measured by the correspondence and the "
        "property predicates on the implementation, not proved."),
 "C08": dict(category="proof", design_ref="DESIGN.md section 5 C08",
   technique="Lean 4: complete executable model of the colour key (azimuth, 1000-step correction table, polar coordinate, HSL/HSV/RGB) with theorems over the reals; colour = F(projection) so symmetry invariance is a corollary of the C07 sector theorems; AST-translated hsl_to_hsv proved equal to the model; differential check of every stage on all 38 Laue sectors",
   text="Symmetry clause: the colour is a function of the direction's projection into the Laue group's sector, so for every "
        "certified sector all equivalent directions off the boundary get the same colour (theorems colour_invariant / "
        "key_colour_invariant, from C07); the Laue group contains the inversion (from the C03 tables). Range clause: hue in "
        "[0,1), azimuth in [0,2pi] unconditionally, polar in [0,1] for directions on the sector side of every wall, RGB in "
        "[0,1]^3 with no division by zero. Position clause: the correction table is a cumulative distribution (monotone, 0 to "
        "2pi), interpolation is monotone, the three segments of a 3-vertex sector carry exactly one third each (table = "
        "2pi/3, 4pi/3 at the segment bounds); the centre is white and the channel-wise maximum of every colour, lightness is "
        "monotone in the polar coordinate; polar is exactly 0 on every wall (vertices included) and hue 0, 1/3, 2/3 there give "
        "exactly red, green, blue. Only measured: that a vertex azimuth coincides with the table angle of its rounded index "
        "(1/1000 discretisation, corner channels within 0.02: corner_colour_partial), positivity of the 999 table distances, "
        "numpy summation order. Invariance and order-independence on the implementation are checked for all 38 groups; the "
        "Laue sectors that are not fundamental domains and the numeric-centre band of m-3 are known findings."),
 "C04": dict(category="proof", design_ref="DESIGN.md section 5 C04",
   technique="Lean 4 theorems over the reals (cyclic trace identity, suprema over finite group lists, groups up to sign) + differential check against a brute-force oracle and the executable model",
   text="Proved for all unit orientations and all finite rotation groups (lists closed under product and inverse up to the "
        "quaternion sign): the formula of Orientation.dot (maximum of |(O2 O1^-1).s| over the unique symmetry products, zero "
        "for different properness) equals the brute-force maximum over all pairs of equivalents, for one symmetry and for two "
        "different symmetries (product set G2.G1, as the repaired code builds it); the value is symmetric, invariant under "
        "replacing either argument by an equivalent, at most 1 and equal to 1 for equivalent orientations; the angle "
        "arccos(2d^2-1) is antitone, so this is the minimum angle. The executable model run by the driver is proved equal to "
        "the functions the theorems are about. Pairwise, outer (eager/lazy, all shape pairs), distance-matrix and "
        "misorientation APIs are compared with an independent brute force on every run. The bound by the maximal "
        "disorientation angle is measured only; that the live symmetry lists are groups is C03."),
 "C05": dict(category="proof", design_ref="DESIGN.md section 5 C05",
   technique="Lean 4 theorems (large cell = minimal-angle set by the cyclic trace identity; loop invariants of the reduction; decision table) + differential run of the reduction loop and brute-force orbit oracle",
   text="Proved for all misorientations and all finite groups: the large cell (Voronoi cell of the identity among the "
        "distinguished points gr.gl) is exactly the set of orbit members of maximal |Re|, i.e. minimal rotation angle; the "
        "reduction loop returns gl.M.gr for operations of the two lists, returns an element inside the region whenever one "
        "exists, is of minimal angle given that the region lies in the large cell, and is idempotent on results inside; "
        "get_proper_groups is total except exactly for two improper groups without inversion (explicit error). PARTIAL: that "
        "the region orix constructs (pruned large-cell normals intersected with the axis fundamental zone) lies in the large "
        "cell and meets every orbit is not proved; it is measured on every run against a brute-force minimum over the orbit "
        "for every group alone, paired with itself and for random ordered pairs, including points on region faces, edges "
        "and vertices. The model loop (with the model of get_proper_groups) is run against the implementation on the same "
        "region normals."),
 "C01": dict(category="proof", design_ref="DESIGN.md section 5 C01",
   technique="Lean 4 theorems over the reals (Mathlib trigonometry) for spec maps and a code-shaped model under explicit eps guards; seven numba kernels AST-translated on every run and proved equal to the model; differential check with scipy as independent oracle",
   text="For every unit quaternion, Lean theorems over the reals prove: matrix.vector = quaternion.vector with an orthogonal "
        "determinant-1 matrix; matrix->quaternion, Euler (gimbal cases included), axis-angle, Rodrigues and Rodrigues-Frank "
        "conversions round-trip up to sign; Euler angles in [0,2pi)x[0,pi]x[0,2pi) and rotation angle in [0,pi]; homochoric "
        "length formula, bound and direction; the degrees flag only rescales and the direction flag only inverts. Proved for "
        "threshold-free spec maps at full strength and for a code-shaped model of _conversions.py under explicit guards "
        "(outside the eps band or exactly on the singular value). Seven kernels are tied to the live source by AST-translated "
        "obligations generated = model; the homochoric inverse (fitted polynomial), ax2ro/ro2ax (np.inf) and all wrapper "
        "plumbing, shapes, dtypes and classes are tied only by the differential check (tau = 1e-7 rad; 1e-4 through the "
        "thresholded matrix->quaternion square roots). Rounding and behaviour inside the eps bands are measured. Open findings "
        "are pinned by proved witnesses (Euler Phi = pi branch sign, homochoric length for negative scalar part, "
        "Rodrigues-Frank 1e-3 cut-off, 1.4e-7 rad residual of the homochoric inverse below 1e-6 rad)."),
 "C09": dict(category="proof", design_ref="DESIGN.md section 5 C09",
   technique="Lean 4 theorems over the reals for all invertible bases (ring/field identities) + AST-translated four-index helpers proved equal to the model + differential runs (exact on dyadic lattices)",
   text="Over the reals, for every base matrix the lattice constructor accepts and all vectors/index tuples: every pair of "
        "direct, reciprocal, Cartesian and four-index conversions composes to the identity (four-index on the U+V+T=0 "
        "hyperplane); the bases are dual; dot = uh+vk+wl; |g| = 1/d; the cross product is perpendicular and has coordinates "
        "det(B).(u x v) in the dual space; the alignment is a proper rotation giving a || e1 and c* || e3 with unchanged "
        "metric and kept Cartesian atom positions (12-decimal rounding bounded by 5e-13 per entry). Inputs the real code "
        "rejects are errors in the model. Tie: AST translation for the four-index helpers, differential runs for "
        "_transform_space, the alignment function, Phase.structure and Miller (== on dyadic lattices, conditioning-scaled "
        "tolerances otherwise). numpy.linalg.inv, diffpy Lattice and rounding are assumed/measured."),
 "C16": dict(category="proof", design_ref="DESIGN.md section 5 C16",
   technique="Lean 4: index-map and naturality theorems for an NDArray/object model, lifted to all finite programs by induction; differential run of random programs with exact tag comparison; buffer hashing for the no-mutation clause",
   text="Lean proves for the array/object model (shape + data; objects = arrays of (element, improper flag) + metadata) that "
        "every structural operation is an explicit index map, commutes with every element map, is bijective where it should "
        "be, total on well-formed inputs, that flatten uses one fixed idempotent order, and - by induction over arbitrary "
        "finite programs - that the result equals the same program run on an index array; data and flag arrays follow the same "
        "permutation; symmetry/phase/coordinate format are preserved (pair swapped per misorientation inverse). Tie: "
        "differential run of random programs over all five classes with exact tag comparison, and orix alone vs numpy on index "
        "arrays. The no-mutation clause is not a theorem: it is checked on the implementation by hashing all operands before "
        "and after every step and every reflected public property/argument-free method. numpy indexing semantics is assumed."),
 "C17": dict(category="proof", design_ref="DESIGN.md section 5 C17",
   technique="Lean 4 theorems for all lists (nodup/cover/order/index/inverse contracts of the spec; Rotation.unique pipeline = spec; polynomial key lemma over the reals) + exact differential run",
   text="Lean proves for all lists of keys, drop predicates and sort orders that the specification of unique is duplicate-free, "
        "covers every non-dropped input, keeps first-appearance order, and has correct idx and inv; Rotation.unique's "
        "np.unique -> argsort -> inverse-map pipeline equals that specification (empty list included); Object3d.unique returns "
        "the correct elements but its idx/inv only satisfy weaker statements, with a proved counter-example (open known "
        "finding pinned by orix tests); the ten quadratic differentiators are equal iff q' = +-q over the reals. Rounding (10/12 "
        "decimals, zero test) is outside the theorems and compared exactly with orix on dyadic, tie, near-zero and "
        "threshold-perturbed inputs for all classes, shapes and options. np.unique/np.round are assumed contracts."),
 "C20": dict(category="proof", design_ref="DESIGN.md section 5 C20",
   technique="Lean 4 theorems over the reals (projection bijection, hemisphere split, histogram/smoothing conservation, MRD mean) + AST-translated projection kernels + differential run of the full pole-density pipeline",
   text="Over the reals: both-pole projection maps hemisphere unit vectors into the closed disk; xy2vector and vector2xy are "
        "mutual inverses (pole as guarded branch); the hemisphere split with its stated +-1e-9 band; the polar round trip "
        "outside the 1e-8 snap band; histogram weight conservation with binned <=> in-hemisphere; mass and positivity "
        "conservation of wrap/reflect smoothing for any symmetric normalised non-negative kernel; MRD mean 1; folded-density "
        "invariance given C07's orbit-constant projection. scipy gaussian_filter and np.histogram2d are contracts exercised by "
        "the correspondence; _vector2xy and xy2vector are AST-tied; the full pole_density_function pipeline agrees with the "
        "model. Open findings: absolute epsilon bands for vectors shorter than ~1e-8 and the C07 sector defects in the folded "
        "density."),
 "C06": dict(category="proof", design_ref="DESIGN.md section 5 C06",
   technique="Lean 4 theorems: one equivalence relation (left multiplication by a finite rotation group) and every symmetry-aware quantity respects it; proved counter-example for the right-multiplying reduction; relational differential check feeding each operation's output to every other",
   text="Proved for every finite rotation group and all unit orientations: left-equivalence is an equivalence relation; "
        "equivalent orientations have reduced dot product 1 (zero angle), the same reduced dot product to any third "
        "orientation (any symmetry), and crystal directions O'.v = g.(O.v) in one orbit, hence (C07, C08) the same sector "
        "direction and IPF colour. Orientation.map_into_symmetry_reduced_zone multiplies on the right: proved equivalent only "
        "when the operation commutes with the orientation (_partial) and proved not equivalent in general (rational witness "
        "for 222) - an open known finding pinned by orix tests. On the implementation every representative (equivalent() "
        "members, reduced-zone and Euler-region representatives) is fed to angle_with, the angle to a third orientation, "
        "in_fundamental_sector and the IPF colour key for all 38 groups."),
 "C10": dict(category="proof", design_ref="DESIGN.md section 5 C10",
   technique="Lean 4: orbit-stabiliser theorem and orbit/key lemmas for any action of a finite matrix group, instantiated on the regenerated point-group tables; list-level layout theorems for symmetrise; recovery theorems for the executable model of Miller.round; minimum/invariance theorems for the symmetry-aware angle; exact differential run on integer indices",
   text="Proved for any action of a finite group list (C03) on any vector type: symmetrise is the list of images under all "
        "operations; the multiplicity (number of distinct images) times the stabiliser order equals the group order, hence "
        "divides it (orbit-stabiliser, via fibre counting); with unique=True the vectors are the distinct images grouped in "
        "input order with one multiplicity per input and one index per returned vector; unique(use_symmetry=True) keeps "
        "exactly one vector per orbit; two vectors have the same key (set of images) iff one is an image of the other. "
        "Instantiated for every regenerated point-group table acting on integer indices. Miller.round (_round_indices, "
        "executable model MillerRound.lean run against the code on every run): every multiple of a coprime triplet whose "
        "largest index is at most min(max_index, 51) comes back as that triplet (also Miller-Bravais quartets), with a proved "
        "miss at index 52 caused by the 1e-7 error grid (open finding) and no bound needed without the grid. The "
        "symmetry-aware angle (model angleWithSym, run on the live operations): it is the minimum over the images, invariant "
        "under images of either argument, the plain angle for the trivial group; with several other vectors entry i belongs "
        "to the pair at position i (repaired in /repo, 820316b). On the implementation symmetrise (all flags, shapes, "
        "hkl/uvw/xyz), unique, the angle (broadcasting shapes) and the metadata are compared with an independent brute "
        "force. The 1e-10 rounding of near-duplicates and floating-point rounding are compared, not proved."),
 "C18": dict(category="proof", design_ref="DESIGN.md section 5 C18",
   technique="Lean 4: chunked = whole for every chunk size (lists, induction), einsum tables and built-in kernels = model product (AST-translated, ring), backends agree on unit quaternions; differential run across lazy x chunk x backend x dtype x whole/element-wise",
   text="Proved: for every chunk size, chunked evaluation of element-wise maps and of outer products equals whole evaluation "
        "in values and row-major self.shape + other.shape layout (with the index formula of the outer product), chunked element-wise "
        "binary evaluation on equally chunked operands equals whole evaluation, block-wise reduction followed by reduction of the "
        "partial results equals the whole reduction for every associative operation with identity (the max of a lazy distance "
        "matrix), and every chunk is non-empty and at most the chunk size; the dask "
        "einsum coefficient tables and the numba fallback kernels are, on every run, AST-translated and proved equal to the "
        "model's Hamilton product / rotation; the numpy-quaternion sandwich product and the built-in kernel agree on unit "
        "quaternions; integer inputs embed by a ring homomorphism. dask scheduling, numpy-quaternion arithmetic and rounding "
        "are outside the theorems: the same call is run under lazy x chunk sizes 1..beyond size x backend (flag toggled "
        "in-process) x float64/float32/int64 x whole/element-wise, exactly against the chunked integer model and against each "
        "other, including symmetry-reduced outer angles and distance matrices."),
 "C19": dict(category="other", design_ref="DESIGN.md section 5 C19",
   technique="Lean 4: executable model of the deterministic S2 meshes (linspace, UV, equal-area, cube, hexagonal) with covering theorems for the UV mesh, the equal-area mesh and the three cube meshes for every resolution; executable model of the SO(3) grids of the quaternion and haar_euler methods with covering theorems of SO(3) for every resolution up to 180 degrees; logical skeleton for fundamental-zone samples; the covering radii of fundamental-zone samples and of the cubochoric method are measured against bounds fixed in advance",
   text="NOT a proof-level claim for the whole property. Proved (Lean, all inputs): S2 - the UV mesh is defined for every "
        "legitimate input and returns unit vectors; its steps are <= the resolution (from the integer ceilings); every "
        "direction of the sphere has a mesh vector within chord (r.pi/180)/sqrt 2 (both hemispheres, offset 0, all r > 0 "
        "without pole-duplicate removal, r >= 0.002 deg with it; removal loses no vector); for every hemisphere and every offset in "
        "[0,1) every mesh vector lies in the requested closed hemisphere and (grid with its pole duplicates) every direction of "
        "it has a mesh vector within squared chord 5/4 (r.pi/180)^2 (offset 0: also after pole-duplicate removal, r >= 0.002 deg); "
        "cube meshes return unit vectors, "
        "24 steps^2 + 2 of them; the normalized cube covers the sphere within chord tan(r)/sqrt 2 for 0 < r < 90 deg and "
        "divides by zero at 120 deg (proved, known finding); the spherified-edge and spherified-corner (default) cube meshes cover "
        "the sphere within chord sqrt2 r.pi/180 resp. 1.5 r.pi/180 for EVERY r > 0 (any odd edge function: the face lists miss no "
        "lattice point; tan is 2- resp. 3-Lipschitz on the edge's angular range; radial projection is 1-Lipschitz outside the "
        "unit ball); the equal-area mesh is defined for every r > 0, holds 4D(2D+1) grid "
        "nodes (D = ceil(90/r)) and covers the sphere: every direction v has a mesh vector g with v.g >= cos(pi/(4D)) - 1/(2D) "
        ">= cos(r pi/360) - r/180 (all r > 0 without pole-duplicate removal, 0.002 <= r <= 360 deg with it; cos(theta) is "
        "sampled uniformly, so the angular radius scales like sqrt r at the poles), and for hemisphere='upper'/'lower' every mesh "
        "vector lies in the requested closed hemisphere and every direction of it is covered with the same bound; hexagonal "
        "mesh: unit only. SO(3) - a sample "
        "built as unique(filter inside grid) lies in the region, has no duplicates and keeps every grid point inside; local "
        "samples stay within the requested angle; the three-uniform-samples quaternion is unit; from_euler(0, theta, pi/2 - "
        "phi) rotates Z exactly onto (theta, phi); an L-Lipschitz image of a grid of mesh h covers within L.h; the grids of "
        "the methods 'quaternion' and 'haar_euler' (before unique, executable model compared with the code rotation by "
        "rotation) are defined for every r > 0, hold n^3 resp. n^2 n/2 unit quaternions and COVER SO(3) for every 0 < r <= 180 "
        "deg: every rotation p has a grid rotation q with |p.q| >= cos(r pi/360) sqrt(1 - r/(2(360 - r))) resp. "
        "cos(r pi/360) sqrt(1 - r/180) (the radial Hopf coordinate is sampled uniformly in sin^2, so the worst-case angle "
        "scales like sqrt r at the poles). NOT proved: the cubochoric grid, the restriction of a grid to a fundamental zone "
        "(grid rotations outside the zone are dropped, so the SO(3) covering does not transfer), and the coverings of the "
        "hexagonal and icosahedral meshes and of offset UV meshes after pole-duplicate removal: those covering radii are measured on every run "
        "against method-specific bounds fixed in advance (1.5 r, 2.2 r, 10 sqrt(r); S2 0.9 r, 5.4 sqrt(r)) - hence category "
        "'other'. The model is tied to the code by exact comparison of grid counts and 1e-12 comparison of coordinates on ~54 "
        "awkward resolutions x all options; the proved bounds (UV, equal-area, cube meshes, SO(3) grids) are also evaluated on the "
        "implementation's own grids at seeded directions and at the directions half-way between grid lines."),
 "C11": dict(category="proof", design_ref="DESIGN.md section 5 C11",
   technique="Lean 4: model of CrystalMap.__getitem__ proved to refine a set-semantics specification for every grid, mask, key and (by induction) every finite selection history; differential run of random histories",
   text="A Lean model of CrystalMap.__getitem__, mirrored branch by branch on the is_in_data mask with explicit error cases, "
        "is proved to refine a set-semantics specification for every grid, mask and key, and by induction every finite "
        "selection history: the result is a sub-list of the map indexed; every per-point accessor is the original array at "
        "the ids of the map; the shape is the tight bounding box; get_map_data places each value at its (row, col) with the "
        "fill value elsewhere; selecting changes nothing in the source; over exact real arithmetic the extents computed from "
        "coordinates equal the index-level extents for every origin and every positive step. Tie: differential testing only "
        "- random histories of up to 12 steps compared after every step on all observables, the slice kernel compared "
        "exhaustively with Python/numpy on small lengths. numpy indexing semantics and float rounding are assumptions. The "
        "single-point-grid defect is an open known finding."),
 "C12": dict(category="proof", design_ref="DESIGN.md section 5 C12",
   technique="Lean 4: invariant of PhaseList / crystal-map phase bookkeeping proved for every constructor input and preserved by every admissible operation along all histories; differential run of random constructions and histories",
   text="A Lean model of PhaseList and of the phase bookkeeping of CrystalMap (constructor reconciliation, phase_id and "
        "property setters through selections, add, del, add_not_indexed, sort, phases_in_data) is proved to maintain the "
        "invariant - ids strictly ascending, every phase id of every point in the list, id -1 iff 'not_indexed', "
        "phases_in_data exact - after construction for every caller list with distinct ids in which only id -1 is called "
        "not_indexed, and under every admissible operation along all finite histories (admissibility is an explicit decidable "
        "guard). Also proved: add rejects duplicate names; getitem by id or name returns exactly the phases asked for; "
        "assignments through a selection change exactly the selected points; selections leave the source untouched; a "
        "single-phase selection carries that phase's point group. The pre-fix constructor/phases_in_data are kept as "
        "definitions with proved counter-examples. Tie: differential testing of random construction inputs and histories. "
        "Colours and the phases setter are not modelled."),
 "C13": dict(category="proof", design_ref="DESIGN.md section 5 C13-C15",
   technique="Lean 4: read(write m) = m for all well-formed records of the format model; key/marker/symmetry tables regenerated from the source and checked by decide +kernel; differential run on real HDF5 files (raw h5py tree and loaded map)",
   text="Lean proves, for the format model of orix's HDF5 codec and all records satisfying an explicit decidable "
        "well-formedness predicate (at least two points, ASCII strings, no reserved property names, at most ten atoms, "
        "point-group names that resolve to themselves, a phase list consistent with the data), that reading what was written "
        "returns the record (properties as the same name/array set) and that a second cycle does too; a generic theorem that "
        "the dict<->HDF5 codec only sorts keys and applies two stated leaf rules. Every excluded point has a kernel-checked "
        "counter-example or is run against the implementation (open findings). Tie: key, marker and symmetry tables "
        "regenerated from the source on every run; differential run comparing the raw h5py tree, the loaded map and the second "
        "cycle, and that saving does not modify the map. The Euler<->rotation step is C01's theorem; h5py's storage contract "
        "is assumed; lattice re-alignment on load is measured."),
 "C14": dict(category="proof", design_ref="DESIGN.md section 5 C13-C15",
   technique="Lean 4: fixed-point (1e-5) model of the .ang writer/reader with tables regenerated from the source; readAng(writeAng m) = quantise m for all maps and writer options; differential run comparing every written row as text and the loaded map",
   text="Lean proves, for a fixed-point model (units of 1e-5) of the .ang writer and reader instantiated with column, "
        "footprint, alias and sentinel tables regenerated from the source on every run, that for all maps and all writer "
        "keyword combinations satisfying an explicit predicate the reader returns exactly the specified map: grid, indexed "
        "pattern, written Euler triplets, chosen columns, sentinels, phases renumbered 1..n with proper point groups, extras "
        "under their names; renumbering bijectivity, sentinel exactness and the alias round trip for all 40 group names. The "
        "excluded cases (multi-word names, column maps, unused phases, odd extra names) have proved counter-examples and are "
        "open findings. numpy's decimal formatting/parsing is outside the theorems; the differential run compares every "
        "written row as text and the loaded map."),
 "C15": dict(category="proof", design_ref="DESIGN.md section 5 C13-C15",
   technique="Lean 4: decode(encode m) = m for the vendor format descriptions (ang TSL/EMsoft/ASTAR, ctf variants, any column table with distinct names), unexpected-column rule on regenerated tables, Bruker re-ordering permutation lemma; rendered real files loaded with io.load",
   text="Proof of the FORMAT MODELS, partial for the h5ebsd readers. Lean proves decode(encode m) = m for all well-formed maps "
        "for .ang TSL (10/14 columns), EMsoft and ASTAR, for .ctf Oxford/Bruker, EMsoft, MTEX and ASTAR, and for any column "
        "table with distinct names; the unexpected-column-count rule (warning + generic names) on the generated tables; for "
        "Bruker, that any acquisition-order permutation is sorted back for every array. Full decode/encode for Bruker and "
        "EMsoft h5ebsd is NOT proved: only table obligations, kernel-checked instances and the correspondence run support it. "
        "Vendor column, Laue-class, degree-flag and re-order tables are regenerated from the source on every run; each format "
        "description is rendered to real files with distinct values per column and loaded with io.load. Open findings have "
        "proved counter-examples; the renderer, numpy and h5py are trusted; no real vendor files were available."),
}
REASONS = {}
checks = []
for i in ids:
    if i in CLAIMS:
        c = CLAIMS[i]
        checks.append({"property_id": i, "quick_cmd": f"./check {i} --tier quick",
                       "thorough_cmd": f"./check {i} --tier thorough", "evidence_file": f"evidence/{i}.json",
                       "replay_cmd_template": f"./check {i} --replay {{path}}", "engine": "lean4-orixmodel",
                       "level_claimed": {"category": c["category"], "text": c["text"], "design_ref": c["design_ref"]},
                       "level_note": c.get("note", NOTE), "technique": c["technique"]})
na = [{"property_id": i, "reason": REASONS.get(i, "check still under construction in this round (design in DESIGN.md section 5); not yet claimed")}
      for i in ids if i not in CLAIMS]
m = {"version": 1, "setup_cmd": "./check --setup",
     "hooks": {"guard": "PYXEM_ORIX_VERIF",
               "enable": "no hooks are needed: the harness calls the public API and module-level kernels of the editable install of /repo",
               "baseline_off_cmd": "cd /repo && /venv/bin/python -m pytest -ra -q -p no:cacheprovider --timeout=900 --continue-on-collection-errors",
               "source_commits": [], "add_only": True},
     "engines": [{"name": "lean4-orixmodel", "path": "lean/", "serves_properties": sorted(CLAIMS),
                  "kind_free_text": "Lean 4 model + theorems (lake project, Mathlib modules), Python harness for extraction and correspondence"}],
     "checks": checks,
     "notes": "Entry point ./check <id> [--tier quick|thorough] [--replay file]; see DESIGN.md.",
     "not_applicable": na}
json.dump(m, open(os.path.join(HERE, "MANIFEST.json"), "w"), indent=1)
print("claimed:", sorted(CLAIMS))
