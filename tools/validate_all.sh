#!/bin/sh
# validate_all.sh Cxx … : validate every patchN/demoN of the given seed dirs, results in /tmp/seed/results/
mkdir -p /tmp/seed/results
for id in "$@"; do
  for n in 1 2; do
    p=/tmp/seed/$id/_out/patch$n.diff; d=/tmp/seed/$id/_out/demo$n.py
    [ -f "$p" ] && [ -f "$d" ] || continue
    python3 /verif/tools/validate_seed.py "$p" "$d" /tmp/valseed_${id}_$n > /tmp/seed/results/${id}_$n.json 2>&1
    echo "$id $n $(python3 -c "import json;print(json.load(open('/tmp/seed/results/${id}_$n.json')).get('valid'))" 2>/dev/null)"
  done
done
