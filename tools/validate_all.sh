#!/bin/sh
# validate_all.sh Cxx … : validate every patchN/demoN of the given seed dirs under $SEEDROOT (default /tmp/seed),
# results in $SEEDROOT/results/
R=${SEEDROOT:-/tmp/seed}
T=$(basename $R)
mkdir -p $R/results
for id in "$@"; do
  for n in 1 2; do
    p=$R/$id/_out/patch$n.diff; d=$R/$id/_out/demo$n.py
    [ -f "$p" ] && [ -f "$d" ] || continue
    python3 /verif/tools/validate_seed.py "$p" "$d" /tmp/valseed_${T}_${id}_$n > $R/results/${id}_$n.json 2>&1
    echo "$id $n $(python3 -c "import json;print(json.load(open('$R/results/${id}_$n.json')).get('valid'))" 2>/dev/null)"
  done
done
